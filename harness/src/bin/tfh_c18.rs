//! tfh_c18 — C18: decoding rows / edge parameters into structs (`TryIntoStruct::try_into_struct`).
//!
//! Tie: the real `try_into_struct` (trustfall's deserializers + the real serde visitors) against the
//! Coq model `decode_row` (Decode.v) on single-field structs of every target type x a boundary value
//! set (+ seeded type-directed random values), on multi-field structs with missing / extra keys, and
//! on real `EdgeParameters` obtained from the frontend.
//! Direct oracle (independent of the model, computed here with i128 / bit arithmetic): an integer
//! decodes to exactly itself iff it fits the target and is an Err otherwise; every Ok result is
//! compared with the source value; every representable value must decode; no panic.
#![allow(dead_code)]
#[path = "../coq.rs"]
mod coq;
#[path = "../out.rs"]
mod out;
#[path = "../rng.rs"]
mod rng;
#[path = "../show.rs"]
mod show;

use coq::{cfv, clist, cstr};
use out::{Case, Out};
use rng::Rng;
use serde::Deserialize;
use serde::de::DeserializeOwned;
use serde_json::json;
use show::{hex, show_fv};
use std::collections::BTreeMap;
use std::panic::{AssertUnwindSafe, catch_unwind};
use std::path::PathBuf;
use std::sync::Arc;
use trustfall_core::TryIntoStruct;
use trustfall_core::ir::{EdgeParameters, FieldValue};

type Row = BTreeMap<Arc<str>, FieldValue>;

const K_INT_FLOAT: &str = "K-int-into-float";
const K_NARROW: &str = "K-float-narrowing";
const K_ENUM: &str = "K-enum-todo";

// ------------------------------------------------------------------ oracle vocabulary

#[derive(Debug, Clone, PartialEq)]
enum Chk {
    Exact,
    /// the INPUT lies in a known-defect class (the result cannot be exact)
    Lossy(&'static str),
    Wrong(String),
}

fn int_of(v: &FieldValue) -> Option<i128> {
    match v {
        FieldValue::Int64(i) => Some(*i as i128),
        FieldValue::Uint64(u) => Some(*u as i128),
        _ => None,
    }
}

/// integer z has at most p significant bits (exactly representable in a binary float of precision p;
/// the exponent range is never an issue for |z| < 2^64)
fn int_exact(z: i128, p: u32) -> bool {
    if z == 0 {
        return true;
    }
    let a = z.unsigned_abs();
    let bits = 128 - a.leading_zeros();
    bits - a.trailing_zeros() <= p
}

/// finite x is exactly representable in binary32 (by bit analysis, not by casting)
fn f64_fits_f32(x: f64) -> bool {
    if x == 0.0 {
        return true;
    }
    let b = x.to_bits() & ((1u64 << 63) - 1);
    let ef = (b >> 52) as i64;
    let f = b & ((1u64 << 52) - 1);
    let (m, e) = if ef == 0 { (f, -1074i64) } else { (f | (1u64 << 52), ef - 1075) };
    let tz = m.trailing_zeros() as i64;
    let mm = m >> tz;
    let eo = e + tz;
    let bl = (64 - mm.leading_zeros()) as i64;
    bl <= 24 && eo >= -149 && eo + bl <= 128
}

fn contains_enum(v: &FieldValue) -> bool {
    match v {
        FieldValue::Enum(_) => true,
        FieldValue::List(l) => l.iter().any(contains_enum),
        _ => false,
    }
}

fn enc_int(z: i128, rng: &mut Rng) -> FieldValue {
    let fi = z >= i64::MIN as i128 && z <= i64::MAX as i128;
    let fu = z >= 0 && z <= u64::MAX as i128;
    match (fi, fu) {
        (true, true) => {
            if rng.chance(1, 2) { FieldValue::Int64(z as i64) } else { FieldValue::Uint64(z as u64) }
        }
        (true, false) => FieldValue::Int64(z as i64),
        (false, true) => FieldValue::Uint64(z as u64),
        _ => FieldValue::Int64(0),
    }
}

fn fstr(s: &str) -> FieldValue {
    FieldValue::String(Arc::from(s))
}
fn flist(l: Vec<FieldValue>) -> FieldValue {
    FieldValue::List(Arc::from(l))
}

fn junk(rng: &mut Rng) -> FieldValue {
    match rng.below(8) {
        0 => FieldValue::Null,
        1 => FieldValue::Int64(rng.range(-300, 300)),
        2 => FieldValue::Uint64(rng.next_u64()),
        3 => FieldValue::Float64((rng.range(-8, 8) as f64) / 4.0),
        4 => fstr(*rng.pick(&["", "a", "\u{e9}x"])),
        5 => FieldValue::Boolean(rng.chance(1, 2)),
        6 => {
            if rng.chance(1, 3) { FieldValue::Enum(Arc::from("E")) } else { flist(vec![]) }
        }
        _ => flist(vec![FieldValue::Int64(rng.range(-2, 2)), FieldValue::Null]),
    }
}

// ------------------------------------------------------------------ target types

trait Tgt: DeserializeOwned + std::fmt::Debug {
    /// Gallina term of type `target`
    fn coq() -> String;
    fn tname() -> String;
    /// canonical rendering, mirrors Decode.show_tv
    fn show(&self) -> String;
    /// oracle: is `self` exactly the row value `v`?
    fn check(&self, v: &FieldValue) -> Chk;
    /// oracle: `self` was produced for a key that is absent from the row
    fn check_missing(&self) -> Chk {
        Chk::Wrong("a value was produced for a missing key".into())
    }
    /// oracle: `v` is exactly representable in Self (so decoding must succeed)
    fn representable(v: &FieldValue) -> bool;
    /// a value biased towards the interesting region of Self
    fn gen_val(rng: &mut Rng) -> FieldValue;
}

macro_rules! int_tgt {
    ($t:ty, $coq:expr, $name:expr) => {
        impl Tgt for $t {
            fn coq() -> String {
                $coq.into()
            }
            fn tname() -> String {
                $name.into()
            }
            fn show(&self) -> String {
                format!("i{}", self)
            }
            fn check(&self, v: &FieldValue) -> Chk {
                match int_of(v) {
                    Some(z) if z == *self as i128 => Chk::Exact,
                    Some(z) => Chk::Wrong(format!("integer {z} decoded as {self}")),
                    None => Chk::Wrong(format!("non-integer decoded as integer {self}")),
                }
            }
            fn representable(v: &FieldValue) -> bool {
                match int_of(v) {
                    Some(z) => z >= <$t>::MIN as i128 && z <= <$t>::MAX as i128,
                    None => false,
                }
            }
            fn gen_val(rng: &mut Rng) -> FieldValue {
                let lo = <$t>::MIN as i128;
                let hi = <$t>::MAX as i128;
                let z = match rng.below(12) {
                    0 => lo - 1,
                    1 => lo,
                    2 => lo + 1,
                    3 => hi - 1,
                    4 => hi,
                    5 => hi + 1,
                    6 => rng.range(-2, 2) as i128,
                    7 => rng.next_u64() as i128,
                    8 => rng.next_u64() as i64 as i128,
                    9 => return junk(rng),
                    _ => {
                        let span = (hi - lo) as u128 + 1;
                        lo + ((rng.next_u64() as u128 * 0x1_0000_0001u128 + rng.next_u64() as u128) % span) as i128
                    }
                };
                enc_int(z, rng)
            }
        }
    };
}
int_tgt!(i8, "TI8", "i8");
int_tgt!(i16, "TI16", "i16");
int_tgt!(i32, "TI32", "i32");
int_tgt!(i64, "TI64", "i64");
int_tgt!(u8, "TU8", "u8");
int_tgt!(u16, "TU16", "u16");
int_tgt!(u32, "TU32", "u32");
int_tgt!(u64, "TU64", "u64");
// 64-bit platform: isize/usize go through deserialize_i64/deserialize_u64 with the i64/u64 checks
int_tgt!(isize, "TI64", "isize");
int_tgt!(usize, "TU64", "usize");

fn gen_float_src(rng: &mut Rng, p: u32) -> FieldValue {
    match rng.below(10) {
        0 => {
            // integer with exactly p+1 significant bits somewhere (never representable) or fewer
            let sh = rng.below((64 - p) as usize) as u32;
            let base = (1u64 << p) | 1 | (rng.next_u64() & ((1u64 << p) - 1));
            let z = (base as u128) << sh;
            if z <= u64::MAX as u128 { FieldValue::Uint64(z as u64) } else { FieldValue::Uint64(u64::MAX) }
        }
        1 => {
            let sh = rng.below((65 - p) as usize) as u32;
            let base = rng.next_u64() >> (64 - p);
            let z = (base as u128) << sh;
            if z <= i64::MAX as u128 && rng.chance(1, 2) {
                FieldValue::Int64(-(z as i64))
            } else if z <= u64::MAX as u128 {
                FieldValue::Uint64(z as u64)
            } else {
                FieldValue::Uint64(1 << 63)
            }
        }
        2 => FieldValue::Int64(rng.next_u64() as i64),
        3 => FieldValue::Uint64(rng.next_u64()),
        4 => FieldValue::Int64(rng.range(-(1 << 25), 1 << 25)),
        5 => {
            let f = f64::from_bits(rng.next_u64());
            FieldValue::Float64(if f.is_finite() { f } else { 1.0 })
        }
        6 => FieldValue::Float64(f32::from_bits(rng.next_u64() as u32 & 0x7f7f_ffff) as f64),
        7 => {
            // near the binary32 boundaries
            let base = *rng.pick(&[f32::MAX as f64, f32::MIN_POSITIVE as f64, f32::from_bits(1) as f64, 16777216.0, 1.0]);
            let b = base.to_bits().wrapping_add(rng.range(-2, 2) as u64);
            let s = if rng.chance(1, 2) { 1u64 << 63 } else { 0 };
            FieldValue::Float64(f64::from_bits(b | s))
        }
        8 => FieldValue::Float64((rng.range(-64, 64) as f64) / 8.0),
        _ => junk(rng),
    }
}

impl Tgt for f64 {
    fn coq() -> String {
        "TF64".into()
    }
    fn tname() -> String {
        "f64".into()
    }
    fn show(&self) -> String {
        format!("d{}", self.to_bits())
    }
    fn check(&self, v: &FieldValue) -> Chk {
        match v {
            FieldValue::Float64(x) => {
                if x.to_bits() == self.to_bits() { Chk::Exact } else { Chk::Wrong(format!("f64 bits {} decoded as {}", x.to_bits(), self.to_bits())) }
            }
            _ => match int_of(v) {
                Some(z) => {
                    if !int_exact(z, 53) {
                        Chk::Lossy(K_INT_FLOAT)
                    } else if self.is_finite() && self.fract() == 0.0 && (*self as i128) == z {
                        Chk::Exact
                    } else {
                        Chk::Wrong(format!("representable integer {z} decoded as {self:e}"))
                    }
                }
                None => Chk::Wrong("non-number decoded as f64".into()),
            },
        }
    }
    fn representable(v: &FieldValue) -> bool {
        match v {
            FieldValue::Float64(_) => true,
            _ => int_of(v).map(|z| int_exact(z, 53)).unwrap_or(false),
        }
    }
    fn gen_val(rng: &mut Rng) -> FieldValue {
        gen_float_src(rng, 53)
    }
}

impl Tgt for f32 {
    fn coq() -> String {
        "TF32".into()
    }
    fn tname() -> String {
        "f32".into()
    }
    fn show(&self) -> String {
        if self.is_nan() { "gnan".into() } else { format!("g{}", self.to_bits()) }
    }
    fn check(&self, v: &FieldValue) -> Chk {
        match v {
            FieldValue::Float64(x) => {
                if x.is_nan() {
                    if self.is_nan() { Chk::Exact } else { Chk::Wrong("NaN decoded as a number".into()) }
                } else if x.is_infinite() {
                    if (*self as f64) == *x { Chk::Exact } else { Chk::Wrong("infinity decoded as something else".into()) }
                } else if !f64_fits_f32(*x) {
                    Chk::Lossy(K_NARROW)
                } else if (*self as f64) == *x && self.is_sign_negative() == x.is_sign_negative() {
                    Chk::Exact
                } else {
                    Chk::Wrong(format!("binary32-representable {x:e} decoded as {self:e}"))
                }
            }
            _ => match int_of(v) {
                Some(z) => {
                    if !int_exact(z, 24) {
                        Chk::Lossy(K_INT_FLOAT)
                    } else if self.is_finite() && self.fract() == 0.0 && ((*self as f64) as i128) == z {
                        Chk::Exact
                    } else {
                        Chk::Wrong(format!("representable integer {z} decoded as {self:e}"))
                    }
                }
                None => Chk::Wrong("non-number decoded as f32".into()),
            },
        }
    }
    fn representable(v: &FieldValue) -> bool {
        match v {
            FieldValue::Float64(x) => !x.is_finite() || f64_fits_f32(*x),
            _ => int_of(v).map(|z| int_exact(z, 24)).unwrap_or(false),
        }
    }
    fn gen_val(rng: &mut Rng) -> FieldValue {
        gen_float_src(rng, 24)
    }
}

impl Tgt for bool {
    fn coq() -> String {
        "TBool".into()
    }
    fn tname() -> String {
        "bool".into()
    }
    fn show(&self) -> String {
        if *self { "T".into() } else { "F".into() }
    }
    fn check(&self, v: &FieldValue) -> Chk {
        match v {
            FieldValue::Boolean(b) if b == self => Chk::Exact,
            _ => Chk::Wrong(format!("decoded as bool {self}")),
        }
    }
    fn representable(v: &FieldValue) -> bool {
        matches!(v, FieldValue::Boolean(_))
    }
    fn gen_val(rng: &mut Rng) -> FieldValue {
        if rng.chance(1, 5) { junk(rng) } else { FieldValue::Boolean(rng.chance(1, 2)) }
    }
}

impl Tgt for String {
    fn coq() -> String {
        "TString".into()
    }
    fn tname() -> String {
        "String".into()
    }
    fn show(&self) -> String {
        format!("s{}", hex(self))
    }
    fn check(&self, v: &FieldValue) -> Chk {
        match v {
            FieldValue::String(s) if s.as_ref() == self.as_str() => Chk::Exact,
            _ => Chk::Wrong(format!("decoded as string {self:?}")),
        }
    }
    fn representable(v: &FieldValue) -> bool {
        matches!(v, FieldValue::String(_))
    }
    fn gen_val(rng: &mut Rng) -> FieldValue {
        if rng.chance(1, 5) {
            junk(rng)
        } else {
            let n = rng.below(4);
            let s: String = (0..n).map(|_| *rng.pick(&['a', 'Z', '\u{e9}', ' ', '"', '\u{4e16}'])).collect();
            fstr(&s)
        }
    }
}

impl Tgt for () {
    fn coq() -> String {
        "(TTuple [])".into()
    }
    fn tname() -> String {
        "()".into()
    }
    fn show(&self) -> String {
        "[]".into()
    }
    fn check(&self, _v: &FieldValue) -> Chk {
        Chk::Wrong("decoded as unit".into())
    }
    fn representable(_v: &FieldValue) -> bool {
        false
    }
    fn gen_val(rng: &mut Rng) -> FieldValue {
        junk(rng)
    }
}

impl<T: Tgt> Tgt for Option<T> {
    fn coq() -> String {
        format!("(TOption {})", T::coq())
    }
    fn tname() -> String {
        format!("Option<{}>", T::tname())
    }
    fn show(&self) -> String {
        match self {
            None => "N".into(),
            Some(x) => format!("S({})", x.show()),
        }
    }
    fn check(&self, v: &FieldValue) -> Chk {
        match (self, v) {
            (None, FieldValue::Null) => Chk::Exact,
            (None, _) => Chk::Wrong("non-null decoded as None".into()),
            (Some(_), FieldValue::Null) => Chk::Wrong("null decoded as Some".into()),
            (Some(x), v) => x.check(v),
        }
    }
    fn check_missing(&self) -> Chk {
        match self {
            None => Chk::Exact,
            Some(_) => Chk::Wrong("Some produced for a missing key".into()),
        }
    }
    fn representable(v: &FieldValue) -> bool {
        matches!(v, FieldValue::Null) || T::representable(v)
    }
    fn gen_val(rng: &mut Rng) -> FieldValue {
        if rng.chance(1, 4) { FieldValue::Null } else { T::gen_val(rng) }
    }
}

impl<T: Tgt> Tgt for Vec<T> {
    fn coq() -> String {
        format!("(TVec {})", T::coq())
    }
    fn tname() -> String {
        format!("Vec<{}>", T::tname())
    }
    fn show(&self) -> String {
        format!("[{}]", self.iter().map(|x| x.show()).collect::<Vec<_>>().join(","))
    }
    fn check(&self, v: &FieldValue) -> Chk {
        match v {
            FieldValue::List(l) => {
                if l.len() != self.len() {
                    return Chk::Wrong(format!("list of {} decoded as Vec of {}", l.len(), self.len()));
                }
                let mut worst = Chk::Exact;
                for (x, w) in self.iter().zip(l.iter()) {
                    match x.check(w) {
                        Chk::Exact => {}
                        c @ Chk::Wrong(_) => return c,
                        c => worst = c,
                    }
                }
                worst
            }
            _ => Chk::Wrong("non-list decoded as Vec".into()),
        }
    }
    fn representable(v: &FieldValue) -> bool {
        match v {
            FieldValue::List(l) => l.iter().all(T::representable),
            _ => false,
        }
    }
    fn gen_val(rng: &mut Rng) -> FieldValue {
        if rng.chance(1, 10) {
            return junk(rng);
        }
        let n = rng.below(4);
        let mut l: Vec<FieldValue> = (0..n).map(|_| T::gen_val(rng)).collect();
        if rng.chance(1, 12) {
            l.push(FieldValue::Enum(Arc::from("E")));
        }
        flist(l)
    }
}

macro_rules! tuple_tgt {
    ($len:expr; $($n:tt $name:ident),+) => {
        impl<$($name: Tgt),+> Tgt for ($($name,)+) {
            fn coq() -> String {
                format!("(TTuple {})", clist(&[$($name::coq()),+]))
            }
            fn tname() -> String {
                format!("({},)", [$($name::tname()),+].join(","))
            }
            fn show(&self) -> String {
                format!("[{}]", [$(self.$n.show()),+].join(","))
            }
            fn check(&self, v: &FieldValue) -> Chk {
                match v {
                    FieldValue::List(l) => {
                        if l.len() != $len {
                            return Chk::Wrong(format!("list of {} decoded as a {}-tuple", l.len(), $len));
                        }
                        let mut worst = Chk::Exact;
                        $(
                            match self.$n.check(&l[$n]) {
                                Chk::Exact => {}
                                c @ Chk::Wrong(_) => return c,
                                c => worst = c,
                            }
                        )+
                        worst
                    }
                    _ => Chk::Wrong("non-list decoded as a tuple".into()),
                }
            }
            fn representable(v: &FieldValue) -> bool {
                match v {
                    FieldValue::List(l) => l.len() == $len $(&& $name::representable(&l[$n]))+,
                    _ => false,
                }
            }
            fn gen_val(rng: &mut Rng) -> FieldValue {
                if rng.chance(1, 10) {
                    return junk(rng);
                }
                let mut l: Vec<FieldValue> = vec![$($name::gen_val(rng)),+];
                match rng.below(10) {
                    0 => { l.pop(); }
                    1 => l.push(FieldValue::Int64(1)),
                    _ => {}
                }
                flist(l)
            }
        }
    };
}
tuple_tgt!(1; 0 A);
tuple_tgt!(2; 0 A, 1 B);
tuple_tgt!(3; 0 A, 1 B, 2 C);

// ------------------------------------------------------------------ structs

trait Rec: DeserializeOwned + std::fmt::Debug {
    fn rname() -> String;
    /// Gallina term of type `sdef`
    fn sdef() -> String;
    fn field_names() -> Vec<&'static str>;
    fn show(&self) -> String;
    /// per field: the oracle's verdict against the row
    fn checks(&self, row: &Row) -> Vec<(&'static str, Chk)>;
    /// every field is present-and-representable or absent-and-optional
    fn must_decode(row: &Row) -> bool;
}

#[derive(Debug, Deserialize)]
struct One<T> {
    x: T,
}

impl<T: Tgt> Rec for One<T> {
    fn rname() -> String {
        format!("One<{}>", T::tname())
    }
    fn sdef() -> String {
        format!("[({}, {})]", cstr("x"), T::coq())
    }
    fn field_names() -> Vec<&'static str> {
        vec!["x"]
    }
    fn show(&self) -> String {
        self.x.show()
    }
    fn checks(&self, row: &Row) -> Vec<(&'static str, Chk)> {
        vec![("x", match row.get("x") { Some(v) => self.x.check(v), None => self.x.check_missing() })]
    }
    fn must_decode(row: &Row) -> bool {
        match row.get("x") {
            Some(v) => T::representable(v),
            None => is_option_ty(&T::coq()),
        }
    }
}

fn is_option_ty(coq: &str) -> bool {
    coq.starts_with("(TOption ")
}

macro_rules! rec {
    ($name:ident { $($f:ident : $t:ty),+ $(,)? }) => {
        #[derive(Debug, Deserialize)]
        struct $name { $($f: $t),+ }
        impl Rec for $name {
            fn rname() -> String { stringify!($name).into() }
            fn sdef() -> String {
                clist(&[$(format!("({}, {})", cstr(stringify!($f)), <$t as Tgt>::coq())),+])
            }
            fn field_names() -> Vec<&'static str> { vec![$(stringify!($f)),+] }
            fn show(&self) -> String { [$(self.$f.show()),+].join(";") }
            fn checks(&self, row: &Row) -> Vec<(&'static str, Chk)> {
                vec![$((stringify!($f), match row.get(stringify!($f)) {
                    Some(v) => self.$f.check(v),
                    None => self.$f.check_missing(),
                })),+]
            }
            fn must_decode(row: &Row) -> bool {
                true $(&& match row.get(stringify!($f)) {
                    Some(v) => <$t as Tgt>::representable(v),
                    None => is_option_ty(&<$t as Tgt>::coq()),
                })+
            }
        }
    };
}

rec!(M1 { a: i64, b: String, c: Option<u8> });
// declaration order differs from key order
rec!(M2 { z: u8, m: Vec<i64>, a: (i64, String) });
rec!(M3 { p: Option<Option<i64>>, q: Option<String>, r: f64, s: bool });
// edge-parameter structs for the schema below
rec!(PStart { i: Option<i64>, j: i64, s: Option<String>, b: Option<bool>, f: Option<f64>, li: Option<Vec<Option<i64>>>, lli: Option<Vec<Vec<i64>>>, ls: Option<Vec<String>> });
rec!(PStartNarrow { i: Option<u8>, j: i8, f: Option<f32>, li: Option<Vec<i16>>, absent: Option<i64> });
rec!(PStartBad { j: u64, s: String, needed: i64 });
rec!(PNext { n: usize, tag: Option<String>, xs: Option<Vec<u8>> });
rec!(PNextTuple { n: f64, xs: (i64, i64) });

// ------------------------------------------------------------------ running one case

fn classify_err(msg: &str) -> String {
    let m = msg.strip_prefix("error from deserialize: ").unwrap_or(msg);
    if m.contains("out of range integral type conversion") || m.starts_with("invalid value") {
        "range".into()
    } else if m.starts_with("invalid type") {
        "type".into()
    } else if m.starts_with("cannot deserialize") || m.starts_with("invalid length") {
        "len".into()
    } else if m.starts_with("missing field") {
        "missing".into()
    } else if m.starts_with("duplicate field") {
        "dup".into()
    } else {
        format!("other:{m}")
    }
}

fn crow(row: &Row) -> String {
    let items: Vec<String> = row.iter().map(|(k, v)| format!("({}, {})", cstr(k), cfv(v))).collect();
    clist(&items)
}

fn jrow(row: &Row) -> serde_json::Value {
    serde_json::Value::Object(row.iter().map(|(k, v)| (k.to_string(), json!(show_fv(v)))).collect())
}

enum Src<'a> {
    Row,
    Params(&'a EdgeParameters),
}

/// Decode `row` (or the edge parameters it was read from) into S; add the tie case; run the oracle.
fn run_case<S: Rec>(row: &Row, src: Src, out: &mut Out, oracle_only: bool, tag: &str) {
    let res = match src {
        Src::Row => {
            let r = row.clone();
            catch_unwind(AssertUnwindSafe(move || r.try_into_struct::<S>().map_err(|e| e.to_string())))
        }
        Src::Params(p) => catch_unwind(AssertUnwindSafe(move || p.try_into_struct::<S>().map_err(|e| e.to_string()))),
    };
    let imp = match &res {
        Ok(Ok(s)) => format!("OK:{}", s.show()),
        Ok(Err(m)) => format!("ERR:{}", classify_err(m)),
        Err(_) => "PANIC".to_string(),
    };
    let input = json!({"struct": S::rname(), "row": jrow(row), "via": tag});
    // ---- oracle
    let names = S::field_names();
    let used_enum = row.iter().any(|(k, v)| names.contains(&k.as_ref()) && contains_enum(v));
    match &res {
        Err(_) => {
            if used_enum {
                out.oracle_fail_class(K_ENUM, "decoding panicked instead of returning a Result", input.clone(), json!(imp));
            } else {
                out.oracle_fail("decoding panicked", input.clone(), json!(imp));
            }
        }
        Ok(Ok(s)) => {
            for (f, c) in s.checks(row) {
                match c {
                    Chk::Exact => {}
                    Chk::Lossy(class) => out.oracle_fail_class(
                        class,
                        "decoded value differs from the row value (silent rounding)",
                        input.clone(),
                        json!({"field": f, "decoded": imp}),
                    ),
                    Chk::Wrong(why) => out.oracle_fail(
                        "decoded value is not the row value",
                        input.clone(),
                        json!({"field": f, "why": why, "decoded": imp}),
                    ),
                }
            }
        }
        Ok(Err(m)) => {
            if S::must_decode(row) {
                out.oracle_fail("a representable row was rejected", input.clone(), json!(m));
            }
            if classify_err(m).starts_with("other:") {
                out.oracle_fail("unclassified error message", input.clone(), json!(m));
            }
        }
    }
    out.count(&format!("result:{}", imp.split(':').next().unwrap_or("?")));
    if imp.starts_with("ERR:") {
        out.count(&format!("err:{}", &imp[4..]));
    }
    if oracle_only {
        return;
    }
    let coq = format!(
        "show_dres show_fields ({} {} {})",
        if matches!(src_kind(tag), 1) { "decode_params" } else { "decode_row" },
        S::sdef(),
        crow(row)
    );
    let nontrivial = imp != "ERR:type"
        || row.iter().any(|(k, v)| names.contains(&k.as_ref()) && matches!(v, FieldValue::List(l) if !l.is_empty()));
    out.add(Case { input, coq, imp, nontrivial, key: format!("{}|{}|{}", S::rname(), tag, crow(row)) });
}

fn src_kind(tag: &str) -> u8 {
    if tag.starts_with("params") { 1 } else { 0 }
}

fn row1(v: &FieldValue) -> Row {
    let mut r = Row::new();
    r.insert(Arc::from("x"), v.clone());
    r
}

// ------------------------------------------------------------------ inputs

fn boundary_values() -> Vec<FieldValue> {
    use FieldValue::*;
    let mut v: Vec<FieldValue> = vec![Null, Boolean(false), Boolean(true)];
    // every iN/uN limit and limit +-1, in both integer kinds when representable
    let mut zs: Vec<i128> = vec![0, -1, 1, 2, 1 << 53, (1 << 53) + 1, (1 << 53) + 2, -(1 << 53), -(1 << 53) - 1, 16777216, 16777217, -16777217, 16777218];
    for bits in [8u32, 16, 32, 64] {
        let smin = -(1i128 << (bits - 1));
        let smax = (1i128 << (bits - 1)) - 1;
        let umax = (1i128 << bits) - 1;
        for z in [smin - 1, smin, smin + 1, smax - 1, smax, smax + 1, umax - 1, umax, umax + 1] {
            zs.push(z);
        }
    }
    zs.sort();
    zs.dedup();
    for z in zs {
        if z >= i64::MIN as i128 && z <= i64::MAX as i128 {
            v.push(Int64(z as i64));
        }
        if z >= 0 && z <= u64::MAX as i128 {
            v.push(Uint64(z as u64));
        }
    }
    for f in [
        0.0,
        -0.0,
        1.0,
        -1.0,
        1.5,
        -2.25,
        255.0,
        1e300,
        -1e300,
        f64::MAX,
        f64::MIN,
        f64::MIN_POSITIVE,
        f64::from_bits(1),
        -f64::from_bits(1),
        f32::MAX as f64,
        f64::from_bits((f32::MAX as f64).to_bits() + 1),
        3.4028235677973366e38, // halfway between f32::MAX and 2^128: rounds to infinity
        3.4028235677973362e38, // just below the halfway point: rounds to f32::MAX
        f32::MIN_POSITIVE as f64,
        f32::from_bits(1) as f64,
        (f32::from_bits(1) as f64) / 2.0, // tie between 0 and the least subnormal: rounds to 0
        f64::from_bits(((f32::from_bits(1) as f64) / 2.0).to_bits() + 1),
        (f32::from_bits(3) as f64 + f32::from_bits(2) as f64) / 2.0,
        0.1,
        16777217.0,
        9007199254740993.0,
        1.0000000596046448, // 1 + 2^-24: tie, rounds to even (1.0)
        1.0000001788139343, // 1 + 3*2^-24: tie, rounds to even (1 + 2^-22)
        f64::INFINITY,
        f64::NEG_INFINITY,
        f64::NAN,
    ] {
        v.push(Float64(f));
    }
    for s in ["", "a", "ab", "\u{e9}", "a\"b", "5", "true"] {
        v.push(fstr(s));
    }
    v.push(Enum(Arc::from("E")));
    v.push(Enum(Arc::from("")));
    let i = |z: i64| Int64(z);
    for l in [
        vec![],
        vec![Null],
        vec![i(1)],
        vec![Uint64(1)],
        vec![i(1), i(2)],
        vec![i(1), fstr("a")],
        vec![fstr("a"), i(1)],
        vec![i(1), Null],
        vec![Null, fstr("")],
        vec![i(1), i(2), i(3)],
        vec![i(-1)],
        vec![i(255), i(256)],
        vec![i(256), Enum(Arc::from("E"))],
        vec![i(65535), Uint64(65535)],
        vec![i(65536)],
        vec![Uint64(u64::MAX)],
        vec![i((1 << 53) + 1)],
        vec![i(1), Uint64(u64::MAX), Float64(2.5)],
        vec![Float64(1.5)],
        vec![Float64(1e300), Float64(0.5)],
        vec![fstr("a")],
        vec![fstr("a"), fstr("")],
        vec![Boolean(true), Boolean(false)],
        vec![Enum(Arc::from("E"))],
        vec![i(1), Enum(Arc::from("E"))],
        vec![fstr("a"), Enum(Arc::from("E"))],
        vec![Enum(Arc::from("E")), fstr("a")],
        vec![flist(vec![])],
        vec![flist(vec![]), flist(vec![])],
        vec![flist(vec![i(1)]), flist(vec![i(2), i(3)])],
        vec![flist(vec![i(1)]), Null],
        vec![flist(vec![i(65535)]), flist(vec![i(65536)])],
        vec![flist(vec![i(1), fstr("a")])],
        vec![flist(vec![i(1), fstr("a")]), flist(vec![i(2)])],
        vec![flist(vec![Null])],
        vec![flist(vec![flist(vec![i(1)])])],
        vec![i(5), flist(vec![i(1)])],
    ] {
        v.push(flist(l));
    }
    v
}

macro_rules! for_all_targets {
    ($m:ident) => {
        $m!(i8); $m!(i16); $m!(i32); $m!(i64); $m!(u8); $m!(u16); $m!(u32); $m!(u64);
        $m!(isize); $m!(usize);
        $m!(f32); $m!(f64); $m!(bool); $m!(String); $m!(());
        $m!(Option<i64>); $m!(Option<String>); $m!(Option<u8>); $m!(Option<f64>); $m!(Option<f32>);
        $m!(Option<bool>); $m!(Option<Option<i64>>); $m!(Option<Vec<i8>>); $m!(Option<(i64, String)>);
        $m!(Vec<i64>); $m!(Vec<u64>); $m!(Vec<Option<u8>>); $m!(Vec<Vec<u16>>); $m!(Vec<String>);
        $m!(Vec<f64>); $m!(Vec<f32>); $m!(Vec<bool>); $m!(Vec<(i64, String)>); $m!(Vec<Option<Vec<i32>>>);
        $m!((i64, String)); $m!((u8,)); $m!((i64, i64, i64)); $m!((Option<i32>, bool)); $m!((Vec<i64>, f64));
        $m!(((i8, u8), String));
    };
}

fn run_singles(seed: u64, n: usize, out: &mut Out, oracle_only: bool) {
    let vals = boundary_values();
    out.count_n("boundary_values", vals.len() as u64);
    let mut rng = Rng::new(seed);
    let mut ntypes = 0usize;
    macro_rules! count_t {
        ($t:ty) => {
            ntypes += 1;
        };
    }
    for_all_targets!(count_t);
    let per_type = n / ntypes.max(1) + 1;
    macro_rules! go {
        ($t:ty) => {{
            for v in &vals {
                run_case::<One<$t>>(&row1(v), Src::Row, out, oracle_only, "row");
            }
            let mut r = rng.fork();
            for _ in 0..per_type {
                let v = <$t as Tgt>::gen_val(&mut r);
                run_case::<One<$t>>(&row1(&v), Src::Row, out, oracle_only, "row-random");
            }
            out.count("target_types");
        }};
    }
    for_all_targets!(go);
}

fn opt_insert(r: &mut Row, k: &str, v: &Option<FieldValue>) {
    if let Some(v) = v {
        r.insert(Arc::from(k), v.clone());
    }
}

fn run_multi(out: &mut Out, oracle_only: bool) {
    use FieldValue::*;
    let en = || Enum(Arc::from("E"));
    let extras: Vec<Vec<(&str, FieldValue)>> = vec![
        vec![],
        vec![("0first", en())],
        vec![("zz_last", flist(vec![en()])), ("B", Int64(1))],
    ];
    // M1 { a: i64, b: String, c: Option<u8> }
    let a_opts = [None, Some(Int64(5)), Some(Uint64(u64::MAX)), Some(fstr("x")), Some(Null), Some(en())];
    let b_opts = [None, Some(fstr("s")), Some(Int64(1)), Some(Null), Some(en())];
    let c_opts = [None, Some(Null), Some(Int64(255)), Some(Int64(256)), Some(Uint64(7)), Some(en()), Some(fstr("q"))];
    for a in &a_opts {
        for b in &b_opts {
            for c in &c_opts {
                for ex in &extras {
                    let mut r = Row::new();
                    opt_insert(&mut r, "a", a);
                    opt_insert(&mut r, "b", b);
                    opt_insert(&mut r, "c", c);
                    for (k, v) in ex {
                        r.insert(Arc::from(*k), v.clone());
                    }
                    run_case::<M1>(&r, Src::Row, out, oracle_only, "row-multi");
                }
            }
        }
    }
    // M2 { z: u8, m: Vec<i64>, a: (i64, String) }: key order a < m < z, declaration order z, m, a
    let z_opts = [None, Some(Int64(0)), Some(Int64(-1)), Some(Uint64(255)), Some(Uint64(256)), Some(en()), Some(Float64(1.0))];
    let m_opts = [None, Some(flist(vec![])), Some(flist(vec![Int64(1), Uint64(2)])), Some(flist(vec![Uint64(u64::MAX)])), Some(flist(vec![Int64(1), en()])), Some(Null), Some(Int64(3))];
    let t_opts = [
        None,
        Some(flist(vec![Int64(1), fstr("s")])),
        Some(flist(vec![Int64(1)])),
        Some(flist(vec![Int64(1), fstr("s"), Null])),
        Some(flist(vec![fstr("s"), Int64(1)])),
        Some(flist(vec![en(), fstr("s")])),
        Some(flist(vec![])),
    ];
    for z in &z_opts {
        for m in &m_opts {
            for t in &t_opts {
                let mut r = Row::new();
                opt_insert(&mut r, "z", z);
                opt_insert(&mut r, "m", m);
                opt_insert(&mut r, "a", t);
                run_case::<M2>(&r, Src::Row, out, oracle_only, "row-multi");
                r.insert(Arc::from("extra"), en());
                run_case::<M2>(&r, Src::Row, out, oracle_only, "row-multi");
            }
        }
    }
    // M3 { p: Option<Option<i64>>, q: Option<String>, r: f64, s: bool }
    let p_opts = [None, Some(Null), Some(Int64(i64::MIN)), Some(Uint64(1 << 63)), Some(fstr("x"))];
    let q_opts = [None, Some(Null), Some(fstr("")), Some(Boolean(true))];
    let r_opts = [None, Some(Float64(-0.0)), Some(Int64((1 << 53) + 1)), Some(Int64(1 << 53)), Some(Uint64(u64::MAX)), Some(Null)];
    let s_opts = [None, Some(Boolean(true)), Some(Int64(1)), Some(fstr("true"))];
    for p in &p_opts {
        for q in &q_opts {
            for rr in &r_opts {
                for s in &s_opts {
                    let mut r = Row::new();
                    opt_insert(&mut r, "p", p);
                    opt_insert(&mut r, "q", q);
                    opt_insert(&mut r, "r", rr);
                    opt_insert(&mut r, "s", s);
                    run_case::<M3>(&r, Src::Row, out, oracle_only, "row-multi");
                }
            }
        }
    }
    // the empty row
    run_case::<M1>(&Row::new(), Src::Row, out, oracle_only, "row-multi");
    run_case::<M3>(&Row::new(), Src::Row, out, oracle_only, "row-multi");
}

// ------------------------------------------------------------------ real EdgeParameters

fn params_schema() -> trustfall_core::schema::Schema {
    let mut s = String::from("schema {\n  query: RootSchemaQuery\n}\n");
    s.push_str(trustfall_core::schema::Schema::ALL_DIRECTIVE_DEFINITIONS);
    s.push_str(
        "
type RootSchemaQuery {
  Start(i: Int, j: Int!, s: String, b: Boolean, f: Float, li: [Int], lli: [[Int!]!], ls: [String!]): [V!]!
}
type V {
  name: String
  next(n: Int!, tag: String, xs: [Int!]): [V!]!
}
",
    );
    trustfall_core::schema::Schema::parse(s).expect("C18 parameter schema must be valid")
}

fn run_params(out: &mut Out, oracle_only: bool) {
    let schema = params_schema();
    let starts = [
        "j: 0",
        "i: 5, j: -3, s: \"abc\", b: true, f: 1.5, li: [1, null, 3], lli: [[1], [2, 3]], ls: [\"a\", \"b\"]",
        "i: 255, j: 127, s: \"\", b: false, f: 1e300, li: [], lli: [], ls: []",
        "i: 256, j: 128, f: 16777217.0, li: [32767, -32768]",
        "i: -1, j: -129, f: 0.1, li: [32768]",
        "i: null, j: 9223372036854775807, s: null, b: null, f: null, li: null, lli: null, ls: null",
        "i: 9007199254740993, j: -9223372036854775808, f: 2.5, li: [null], lli: [[]]",
        "j: 18446744073709551615, i: 18446744073709551615, s: \"\u{e9}\"",
        "j: 1, f: 3.0, i: 0, li: [9223372036854775807, -9223372036854775808]",
    ];
    let nexts = ["n: 1", "n: 300, tag: null, xs: [1, 2]", "n: 0, tag: \"t\", xs: [255, 256]", "n: 18446744073709551615, xs: []", "n: 9007199254740993, xs: [7, 8, 9]", "n: 9007199254740993, xs: [7, 8]"];
    let mut got = 0u64;
    for (si, st) in starts.iter().enumerate() {
        let nx = nexts[si % nexts.len()];
        let q = format!("{{ Start({st}) {{ name @output next({nx}) {{ name @output(name: \"n2\") }} }} }}");
        let parsed = catch_unwind(AssertUnwindSafe(|| trustfall_core::frontend::parse(&schema, &q)));
        let iq = match parsed {
            Ok(Ok(iq)) => iq,
            Ok(Err(e)) => {
                out.count("params_query_rejected");
                out.extra.insert(format!("rejected_query_{si}"), json!({"query": q, "error": e.to_string()}));
                continue;
            }
            Err(_) => {
                out.count("params_query_panicked");
                continue;
            }
        };
        let mut all: Vec<(String, EdgeParameters)> = vec![("params-root".to_string(), iq.ir_query.root_parameters.clone())];
        for (_, e) in iq.ir_query.root_component.edges.iter() {
            all.push((format!("params-edge-{}", e.edge_name), e.parameters.clone()));
        }
        for (tag, p) in &all {
            got += 1;
            let row: Row = p.iter().map(|(k, v)| (k.clone(), v.clone())).collect();
            if tag == "params-root" {
                run_case::<PStart>(&row, Src::Params(p), out, oracle_only, tag);
                run_case::<PStartNarrow>(&row, Src::Params(p), out, oracle_only, tag);
                run_case::<PStartBad>(&row, Src::Params(p), out, oracle_only, tag);
                run_case::<M1>(&row, Src::Params(p), out, oracle_only, tag);
            } else {
                run_case::<PNext>(&row, Src::Params(p), out, oracle_only, tag);
                run_case::<PNextTuple>(&row, Src::Params(p), out, oracle_only, tag);
                run_case::<M3>(&row, Src::Params(p), out, oracle_only, tag);
            }
        }
    }
    out.count_n("edge_parameter_maps", got);
}

// ------------------------------------------------------------------ main

struct Args {
    seed: u64,
    n: usize,
    out: PathBuf,
    rest: Vec<String>,
}

fn parse_args(v: &[String]) -> Args {
    let mut a = Args { seed: 0, n: 100, out: PathBuf::from("."), rest: vec![] };
    let mut i = 0;
    while i < v.len() {
        match v[i].as_str() {
            "--seed" => {
                a.seed = v[i + 1].parse().unwrap();
                i += 2;
            }
            "--n" => {
                a.n = v[i + 1].parse().unwrap();
                i += 2;
            }
            "--out" => {
                a.out = PathBuf::from(&v[i + 1]);
                i += 2;
            }
            _ => {
                a.rest.push(v[i].clone());
                i += 1;
            }
        }
    }
    a
}

fn main() {
    let argv: Vec<String> = std::env::args().collect();
    if argv.len() < 2 || argv[1] != "c18" {
        eprintln!("usage: tfh_c18 c18 [--seed S] [--n N] [--out DIR] [--oracle-only]");
        std::process::exit(2);
    }
    let args = parse_args(&argv[2..]);
    std::panic::set_hook(Box::new(|_| {}));
    let oracle_only = args.rest.iter().any(|x| x == "--oracle-only");
    let mut o = Out::new(&args.out, "From TF Require Import Values Show Decode.", 1500);
    run_singles(args.seed, args.n, &mut o, oracle_only);
    run_multi(&mut o, oracle_only);
    run_params(&mut o, oracle_only);
    o.finish();
}
