//! C19: schema validation never panics and accepts exactly the valid schemas.
//!
//! usage: tfh_c19 c19 --seed S --n N --out DIR [--oracle-only]
//!        tfh_c19 probe FILE...            (prints the Gallina AST and the implementation's verdict)
//!
//! Schema-document stream (all from the seeded PRNG):
//!   (o) fixed corpus: harness world schema, /repo test_data/schemas, tests/valid_schemas,
//!       tests/schema_errors (with their expected .ron errors), the minimal F12 witnesses, AST-only documents;
//!   (i) random VALID schemas (1-6 vertex types + root, interface hierarchies with transitive
//!       implements, narrowed inherited edges/properties/parameters, defaults, several entry points);
//!   (ii) one violation of one rule applied to a valid schema; (iii) 2-3 violations;
//!   (iv) the F12 constructs (and their interplay with the early-return errors).
//! For each document: parse with async_graphql_parser::parse_schema; walk the ServiceDocument and print
//! it as a `doc` of SchemaAst.v; run Schema::new under catch_unwind; render OK / PANIC / ERR:<errors in
//! the implementation's order>.  Model side: show_schema_result (schema_new <doc>).
//! Direct oracle (implementation only): a panic is a failure (classified when the document lies in a
//! known F12 class); generated documents carry the generator's own expectation (accept / reject with
//! these error kinds), which is checked against the implementation independently of the Coq model.
#[path = "../coq.rs"]
mod coq;
#[path = "../out.rs"]
mod out;
#[path = "../rng.rs"]
mod rng;
#[path = "../show.rs"]
mod show;
#[path = "../world.rs"]
mod world;

use async_graphql_parser::parse_schema;
use async_graphql_parser::types::{
    BaseType, FieldDefinition, ServiceDocument, Type as GType, TypeKind, TypeSystemDefinition,
};
use coq::{cbool, cfv, clist, cstr};
use out::{Case, Out};
use rng::Rng;
use serde_json::json;
use std::collections::{BTreeMap, BTreeSet};
use std::panic::{catch_unwind, AssertUnwindSafe};
use std::path::PathBuf;
use trustfall_core::ir::FieldValue;
use trustfall_core::schema::error::InvalidSchemaError;
use trustfall_core::schema::Schema;

// ------------------------------------------------------------------ CLI

pub struct Args {
    pub seed: u64,
    pub n: usize,
    pub out: PathBuf,
    pub rest: Vec<String>,
}

fn parse_args(v: &[String]) -> Args {
    let mut a = Args { seed: 0, n: 100, out: PathBuf::from("."), rest: vec![] };
    let mut i = 0;
    while i < v.len() {
        match v[i].as_str() {
            "--seed" => {
                a.seed = v[i + 1].parse().unwrap();
                i += 2;
            }
            "--n" => {
                a.n = v[i + 1].parse().unwrap();
                i += 2;
            }
            "--out" => {
                a.out = PathBuf::from(&v[i + 1]);
                i += 2;
            }
            _ => {
                a.rest.push(v[i].clone());
                i += 1;
            }
        }
    }
    a
}

// ------------------------------------------------------------------ AST -> Gallina

fn cgty(t: &GType) -> String {
    match &t.base {
        BaseType::Named(n) => format!("(GNamed {} {})", cstr(n.as_str()), cbool(t.nullable)),
        BaseType::List(inner) => format!("(GList {} {})", cgty(inner), cbool(t.nullable)),
    }
}

fn gdepth(t: &GType) -> usize {
    match &t.base {
        BaseType::Named(_) => 0,
        BaseType::List(inner) => 1 + gdepth(inner),
    }
}

fn cfield(f: &FieldDefinition) -> String {
    let args: Vec<String> = f
        .arguments
        .iter()
        .map(|a| {
            let d = match &a.node.default_value {
                None => "NoDefault".to_string(),
                Some(v) => match FieldValue::try_from(v.node.clone()) {
                    Ok(fv) => format!("(Default {})", cfv(&fv)),
                    Err(_) => "BadDefault".to_string(),
                },
            };
            format!("(mkArg {} {} {})", cstr(a.node.name.node.as_str()), cgty(&a.node.ty.node), d)
        })
        .collect();
    format!("(mkFld {} {} {})", cstr(f.name.node.as_str()), clist(&args), cgty(&f.ty.node))
}

/// None when the document uses a construct outside the modelled fragment (extend, enum, union, input).
fn cdoc(doc: &ServiceDocument) -> Option<String> {
    let mut defs = vec![];
    for d in &doc.definitions {
        match d {
            TypeSystemDefinition::Schema(s) => {
                if s.node.extend {
                    return None;
                }
                let q = match &s.node.query {
                    Some(q) => format!("(Some {})", cstr(q.node.as_str())),
                    None => "None".to_string(),
                };
                defs.push(format!("DSchema {q}"));
            }
            TypeSystemDefinition::Directive(d) => defs.push(format!("DDirective {}", cstr(d.node.name.node.as_str()))),
            TypeSystemDefinition::Type(t) => {
                if t.node.extend {
                    return None;
                }
                let name = cstr(t.node.name.node.as_str());
                match &t.node.kind {
                    TypeKind::Scalar => defs.push(format!("DScalar {name}")),
                    TypeKind::Object(o) => {
                        let imp: Vec<String> = o.implements.iter().map(|x| cstr(x.node.as_str())).collect();
                        let fs: Vec<String> = o.fields.iter().map(|f| cfield(&f.node)).collect();
                        defs.push(format!("DType (mkT {name} VObject {} {})", clist(&imp), clist(&fs)));
                    }
                    TypeKind::Interface(o) => {
                        let imp: Vec<String> = o.implements.iter().map(|x| cstr(x.node.as_str())).collect();
                        let fs: Vec<String> = o.fields.iter().map(|f| cfield(&f.node)).collect();
                        defs.push(format!("DType (mkT {name} VInterface {} {})", clist(&imp), clist(&fs)));
                    }
                    _ => return None,
                }
            }
        }
    }
    Some(clist(&defs))
}

// ------------------------------------------------------------------ known classes (mirror SchemaSpec.v)

fn has_enum(v: &FieldValue) -> bool {
    match v {
        FieldValue::Enum(_) => true,
        FieldValue::List(xs) => xs.iter().any(has_enum),
        _ => false,
    }
}

const BUILTINS: [&str; 5] = ["Int", "Float", "String", "Boolean", "ID"];

/// The known-defect classes the document lies in (boolean predicates on the AST; the same
/// definitions as k_* in SchemaSpec.v), in the order the sites are met by Schema::new.
fn known_classes(doc: &ServiceDocument) -> Vec<&'static str> {
    let mut classes = vec![];
    let mut schemas = vec![];
    let mut dirs: Vec<String> = vec![];
    let mut scalars: Vec<String> = vec![];
    let mut dup_dir = false;
    let mut dup_scalar = false;
    let mut builtin = false;
    let mut deep = false;
    let mut enum_default = false;
    let mut vertex: BTreeMap<String, bool> = BTreeMap::new(); // first definition: name -> is_interface
    for d in &doc.definitions {
        match d {
            TypeSystemDefinition::Schema(s) => schemas.push(s.node.query.as_ref().map(|q| q.node.to_string())),
            TypeSystemDefinition::Directive(d) => {
                let n = d.node.name.node.to_string();
                if dirs.contains(&n) {
                    dup_dir = true;
                }
                dirs.push(n);
            }
            TypeSystemDefinition::Type(t) => {
                let n = t.node.name.node.to_string();
                if BUILTINS.contains(&n.as_str()) {
                    builtin = true;
                }
                let fields = match &t.node.kind {
                    TypeKind::Scalar => {
                        if scalars.contains(&n) {
                            dup_scalar = true;
                        }
                        scalars.push(n.clone());
                        None
                    }
                    TypeKind::Object(o) => {
                        vertex.entry(n.clone()).or_insert(false);
                        Some(&o.fields)
                    }
                    TypeKind::Interface(o) => {
                        vertex.entry(n.clone()).or_insert(true);
                        Some(&o.fields)
                    }
                    _ => None,
                };
                if let Some(fields) = fields {
                    for f in fields {
                        if gdepth(&f.node.ty.node) > 30 {
                            deep = true;
                        }
                        for a in &f.node.arguments {
                            if gdepth(&a.node.ty.node) > 30 {
                                deep = true;
                            }
                            if let Some(v) = &a.node.default_value {
                                if let Ok(fv) = FieldValue::try_from(v.node.clone()) {
                                    if has_enum(&fv) {
                                        enum_default = true;
                                    }
                                }
                            }
                        }
                    }
                }
            }
        }
    }
    if schemas.len() >= 2 {
        classes.push("K-dup-schema-block");
    }
    if dup_dir {
        classes.push("K-dup-directive");
    }
    if builtin {
        classes.push("K-builtin-scalar-redeclared");
    }
    if dup_scalar {
        classes.push("K-dup-scalar");
    }
    if schemas.is_empty() {
        classes.push("K-no-schema-block");
    }
    if let Some(first) = schemas.first() {
        match first {
            None => classes.push("K-schema-without-query"),
            Some(q) => match vertex.get(q) {
                None => classes.push("K-undefined-query-type"),
                Some(true) => classes.push("K-interface-query-type"),
                Some(false) => {}
            },
        }
    }
    if deep {
        classes.push("K-list-depth");
    }
    if enum_default {
        classes.push("K-enum-default");
    }
    classes
}

// ------------------------------------------------------------------ running the implementation

fn sl(v: &[String]) -> String {
    format!("[{}]", v.join(";"))
}

fn flatten(e: &InvalidSchemaError, out: &mut Vec<(String, String)>) {
    use InvalidSchemaError::*;
    let one = |k: &str, parts: Vec<String>| (k.to_string(), format!("{}({})", k, parts.join(",")));
    let s = |x: &String| x.clone();
    match e {
        MultipleErrors(v) => {
            for x in &v.0 {
                flatten(x, out);
            }
        }
        SchemaParseError(_) => out.push(one("ParseError", vec![])),
        InvalidTypeWideningOfInheritedField(a, b, c, d, e2) => out.push(one("Widening", vec![s(a), s(b), s(c), s(d), s(e2)])),
        InvalidTypeNarrowingOfInheritedFieldParameter(a, b, c, d, e2, f) => {
            out.push(one("ParamNarrowing", vec![s(a), s(b), s(c), s(d), s(e2), s(f)]))
        }
        InheritedFieldMissingParameters(a, b, c, v) => out.push(one("MissingParams", vec![s(a), s(b), s(c), sl(v)])),
        InheritedFieldUnexpectedParameters(a, b, c, v) => out.push(one("UnexpectedParams", vec![s(a), s(b), s(c), sl(v)])),
        InvalidDefaultValueForFieldParameter(a, b, c, d, _) => out.push(one("BadDefault", vec![s(a), s(b), s(c), s(d)])),
        CircularImplementsRelationships(v) => out.push(one("Circular", vec![sl(v)])),
        MissingTransitiveInterfaceImplementation(a, b, c) => out.push(one("MissingTransitive", vec![s(a), s(b), s(c)])),
        MissingRequiredField(a, b, c, d) => out.push(one("MissingField", vec![s(a), s(b), s(c), s(d)])),
        AmbiguousFieldOrigin(a, b, c, v) => out.push(one("Ambiguous", vec![s(a), s(b), s(c), sl(v)])),
        PropertyFieldWithParameters(a, b, c, v) => out.push(one("PropertyParams", vec![s(a), s(b), s(c), sl(v)])),
        InvalidEdgeType(a, b, c) => out.push(one("InvalidEdgeType", vec![s(a), s(b), s(c)])),
        UnknownPropertyOrEdgeType(a, b) => out.push(one("UnknownType", vec![s(a), s(b)])),
        PropertyFieldOnRootQueryType(a, b, c) => out.push(one("RootProperty", vec![s(a), s(b), s(c)])),
        EdgePointsToRootQueryType(a, b, c) => out.push(one("EdgeToRoot", vec![s(a), s(b), s(c)])),
        ReservedFieldName(a, b) => out.push(one("ReservedField", vec![s(a), s(b)])),
        ReservedTypeName(a) => out.push(one("ReservedType", vec![s(a)])),
        ImplementingNonExistentType(a, b) => out.push(one("NonExistent", vec![s(a), s(b)])),
        ImplementingNonInterface(a, b) => out.push(one("NonInterface", vec![s(a), s(b)])),
        DuplicateFieldDefinition(a, b) => out.push(one("DuplicateField", vec![s(a), s(b)])),
        DuplicateTypeOrInterfaceDefinition(a) => out.push(one("DuplicateType", vec![s(a)])),
        _ => out.push(one("UnknownVariant", vec![])),
    }
}

#[derive(Clone, Debug, PartialEq)]
enum Verdict {
    Accept,
    Reject(Vec<(String, String)>), // (kind, rendering) in the implementation's order
    Panicked,
}

fn render(v: &Verdict) -> String {
    match v {
        Verdict::Accept => "OK".into(),
        Verdict::Panicked => "PANIC".into(),
        Verdict::Reject(es) => format!("ERR:{}", es.iter().map(|x| x.1.clone()).collect::<Vec<_>>().join("|")),
    }
}

fn verdict_of(r: std::thread::Result<Result<Schema, InvalidSchemaError>>) -> Verdict {
    match r {
        Err(_) => Verdict::Panicked,
        Ok(Ok(_)) => Verdict::Accept,
        Ok(Err(e)) => {
            let mut v = vec![];
            flatten(&e, &mut v);
            Verdict::Reject(v)
        }
    }
}

fn run_new(doc: &ServiceDocument) -> Verdict {
    let d = doc.clone();
    verdict_of(catch_unwind(AssertUnwindSafe(move || Schema::new(d))))
}

fn run_parse(text: &str) -> Verdict {
    verdict_of(catch_unwind(AssertUnwindSafe(|| Schema::parse(text))))
}

// ------------------------------------------------------------------ generator: schema documents

#[derive(Clone, Debug)]
struct GArg {
    name: String,
    ty: String,
    default: Option<String>,
}
#[derive(Clone, Debug)]
struct GField {
    name: String,
    args: Vec<GArg>,
    ty: String,
}
#[derive(Clone, Debug)]
struct GTy {
    name: String,
    iface: bool,
    implements: Vec<String>,
    fields: Vec<GField>,
}
#[derive(Clone, Debug)]
enum GDef {
    Schema(String),
    Directive(String), // full text of the directive definition
    Scalar(String),
    Type(GTy),
}
#[derive(Clone, Debug)]
struct GDoc {
    defs: Vec<GDef>,
    root: String,
}

impl GDoc {
    fn text(&self) -> String {
        let mut s = String::new();
        for d in &self.defs {
            match d {
                GDef::Schema(q) => s.push_str(&format!("schema {{\n  query: {q}\n}}\n")),
                GDef::Directive(t) => {
                    s.push_str(t);
                    s.push('\n');
                }
                GDef::Scalar(n) => s.push_str(&format!("scalar {n}\n")),
                GDef::Type(t) => s.push_str(&type_text(t)),
            }
        }
        s
    }
    fn types(&self) -> Vec<&GTy> {
        self.defs.iter().filter_map(|d| if let GDef::Type(t) = d { Some(t) } else { None }).collect()
    }
    fn ty(&self, n: &str) -> Option<&GTy> {
        self.types().into_iter().find(|t| t.name == n)
    }
    fn ty_mut(&mut self, n: &str) -> Option<&mut GTy> {
        self.defs.iter_mut().find_map(|d| match d {
            GDef::Type(t) if t.name == n => Some(t),
            _ => None,
        })
    }
    /// names of the types that list `n` in their implements
    fn implementers(&self, n: &str) -> Vec<String> {
        self.types().into_iter().filter(|t| t.implements.iter().any(|x| x == n)).map(|t| t.name.clone()).collect()
    }
    /// non-root types nobody implements
    fn leaves(&self) -> Vec<String> {
        self.types().into_iter().filter(|t| t.name != self.root && self.implementers(&t.name).is_empty()).map(|t| t.name.clone()).collect()
    }
    fn fresh_type_name(&self, rng: &mut Rng, stem: &str) -> String {
        loop {
            let n = format!("{}{}", stem, rng.below(1000));
            if self.ty(&n).is_none() {
                return n;
            }
        }
    }
}

fn args_text(args: &[GArg]) -> String {
    if args.is_empty() {
        return String::new();
    }
    let parts: Vec<String> = args
        .iter()
        .map(|a| match &a.default {
            Some(d) => format!("{}: {} = {}", a.name, a.ty, d),
            None => format!("{}: {}", a.name, a.ty),
        })
        .collect();
    format!("({})", parts.join(", "))
}

fn type_text(t: &GTy) -> String {
    let kw = if t.iface { "interface" } else { "type" };
    let imp = if t.implements.is_empty() { String::new() } else { format!(" implements {}", t.implements.join(" & ")) };
    let mut s = format!("{} {}{}", kw, t.name, imp);
    if t.fields.is_empty() {
        s.push('\n');
        return s;
    }
    s.push_str(" {\n");
    for f in &t.fields {
        s.push_str(&format!("  {}{}: {}\n", f.name, args_text(&f.args), f.ty));
    }
    s.push_str("}\n");
    s
}

// ---- type-text helpers (nullability pattern outermost first, base name)
#[derive(Clone, Debug, PartialEq)]
struct Shape {
    base: String,
    nulls: Vec<bool>, // nulls[0] = outermost level ... nulls[depth] = the named level
}
fn shape_of(text: &str) -> Shape {
    let mut s = text;
    let mut nulls = vec![];
    loop {
        let (nl, core) = match s.strip_suffix('!') {
            Some(c) => (false, c),
            None => (true, s),
        };
        nulls.push(nl);
        match core.strip_prefix('[').and_then(|x| x.strip_suffix(']')) {
            Some(inner) => s = inner,
            None => return Shape { base: core.to_string(), nulls },
        }
    }
}
fn shape_text(sh: &Shape) -> String {
    let d = sh.nulls.len() - 1;
    let mut s = format!("{}{}", sh.base, if sh.nulls[d] { "" } else { "!" });
    for lvl in (0..d).rev() {
        s = format!("[{}]{}", s, if sh.nulls[lvl] { "" } else { "!" });
    }
    s
}

const SCALARS: [&str; 5] = ["Int", "String", "Float", "Boolean", "ID"];
const TYPE_NAMES: [&str; 16] = [
    "Alpha", "Beta", "Gamma", "Delta", "Node", "Item", "Box", "Zed", "a", "b", "Ab", "aB", "_x", "M1", "Omega", "Thing",
];
const ROOT_NAMES: [&str; 5] = ["RootSchemaQuery", "Query", "Root", "A0", "zRoot"];

fn random_scalar_shape(rng: &mut Rng) -> Shape {
    let base = (*rng.pick(&SCALARS)).to_string();
    let depth = match rng.below(10) {
        0..=4 => 0,
        5..=7 => 1,
        8 => 2,
        _ => 3,
    };
    Shape { base, nulls: (0..=depth).map(|_| rng.chance(1, 2)).collect() }
}

/// a literal that is a valid value of the (scalar / list of scalar) type, if one exists
fn valid_literal(rng: &mut Rng, sh: &Shape, lvl: usize) -> Option<String> {
    if sh.nulls[lvl] && rng.chance(1, 4) {
        return Some("null".into());
    }
    if lvl + 1 < sh.nulls.len() {
        let n = rng.below(3);
        let mut items = vec![];
        for _ in 0..n {
            items.push(valid_literal(rng, sh, lvl + 1)?);
        }
        return Some(format!("[{}]", items.join(", ")));
    }
    match sh.base.as_str() {
        "Int" => Some(
            (*rng.pick(&["0", "1", "-7", "1000", "9223372036854775807", "-9223372036854775808", "18446744073709551615"])).to_string(),
        ),
        "String" => Some((*rng.pick(&["\"\"", "\"a\"", "\"x y\"", "\"\\\"q\\\"\""])).to_string()),
        "Float" => Some((*rng.pick(&["1.5", "-0.25", "1e10", "0.0"])).to_string()),
        "Boolean" => Some((*rng.pick(&["true", "false"])).to_string()),
        _ => {
            if sh.nulls[lvl] {
                Some("null".into())
            } else {
                None
            }
        }
    }
}

/// a literal that is NOT a valid value of the type
fn invalid_literal(rng: &mut Rng, sh: &Shape) -> String {
    let depth = sh.nulls.len() - 1;
    let mut opts: Vec<String> = vec![];
    if !sh.nulls[0] {
        opts.push("null".into());
    }
    if depth == 0 {
        opts.push("[]".into());
        opts.push("{a: 1}".into());
        match sh.base.as_str() {
            "Int" => opts.extend(["\"a\"".to_string(), "1.5".into(), "true".into()]),
            "String" => opts.extend(["1".to_string(), "1.5".into(), "false".into()]),
            "Float" => opts.extend(["1".to_string(), "\"a\"".into()]),
            "Boolean" => opts.extend(["0".to_string(), "\"true\"".into()]),
            _ => opts.extend(["1".to_string(), "\"a\"".into()]),
        }
    } else {
        opts.push("1".into());
        opts.push("\"a\"".into());
        opts.push("[{a: 1}]".into());
        if depth == 1 {
            opts.push("[[]]".into());
            match sh.base.as_str() {
                "Int" => opts.push("[1, \"a\"]".into()),
                "String" => opts.push("[\"a\", 1]".into()),
                _ => opts.push("[1.5, true, \"s\"]".into()),
            }
            if !sh.nulls[1] {
                opts.push("[null]".into());
            }
        }
    }
    rng.pick(&opts).clone()
}

fn random_params(rng: &mut Rng) -> Vec<GArg> {
    let n = match rng.below(6) {
        0..=2 => 0,
        3..=4 => 1,
        _ => 2 + rng.below(2),
    };
    let names = ["lo", "hi", "max", "x", "y", "_p"];
    let mut used = vec![];
    let mut v = vec![];
    for _ in 0..n {
        let name = (*rng.pick(&names)).to_string();
        if used.contains(&name) {
            continue;
        }
        used.push(name.clone());
        let sh = if rng.chance(1, 12) {
            // parameter types are never looked up: any name goes
            Shape { base: (*rng.pick(&["Whatever", "Date"])).to_string(), nulls: vec![true] }
        } else {
            random_scalar_shape(rng)
        };
        let default = if rng.chance(1, 2) { valid_literal(rng, &sh, 0) } else { None };
        v.push(GArg { name, ty: shape_text(&sh), default });
    }
    v
}

struct Hier {
    names: Vec<String>,
    iface: Vec<bool>,
    implements: Vec<Vec<usize>>, // transitively closed, indices < own index
}

impl Hier {
    /// is `sub` the same as, or an implementer of, `sup`
    fn below(&self, sub: usize, sup: usize) -> bool {
        sub == sup || self.implements[sub].contains(&sup)
    }
}

fn narrow_nulls(rng: &mut Rng, parents: &[&Shape]) -> Vec<bool> {
    let n = parents[0].nulls.len();
    (0..n)
        .map(|i| {
            let all_nullable = parents.iter().all(|p| p.nulls[i]);
            if all_nullable { !rng.chance(1, 3) } else { false }
        })
        .collect()
}

/// A random valid schema (None = this draw hit an unsatisfiable narrowing; the caller retries).
fn gen_valid(rng: &mut Rng) -> Option<GDoc> {
    let n = 1 + rng.below(6);
    let mut pool: Vec<&str> = TYPE_NAMES.to_vec();
    let mut names = vec![];
    for _ in 0..n {
        let i = rng.below(pool.len());
        names.push(pool.remove(i).to_string());
    }
    let root = loop {
        let r = (*rng.pick(&ROOT_NAMES)).to_string();
        if !names.contains(&r) {
            break r;
        }
    };
    // hierarchy: type i may implement earlier interfaces (transitively closed)
    let mut h = Hier { names: names.clone(), iface: vec![], implements: vec![] };
    for i in 0..n {
        let is_iface = if i + 1 == n { rng.chance(1, 4) } else { rng.chance(2, 3) };
        let mut imp: BTreeSet<usize> = BTreeSet::new();
        for j in 0..i {
            if h.iface[j] && rng.chance(1, 2) {
                imp.insert(j);
                for k in &h.implements[j] {
                    imp.insert(*k);
                }
            }
        }
        h.iface.push(is_iface);
        let mut v: Vec<usize> = imp.into_iter().collect();
        // the order in which interfaces are listed is irrelevant for validity: shuffle
        for a in (1..v.len()).rev() {
            let b = rng.below(a + 1);
            v.swap(a, b);
        }
        h.implements.push(v);
    }
    // fields, in hierarchy order
    let mut fields: Vec<Vec<GField>> = vec![];
    let mut counter = 0usize;
    for i in 0..n {
        let mut fs: Vec<GField> = vec![];
        // inherited field names, in first-seen order
        let mut inherited: Vec<String> = vec![];
        for &p in &h.implements[i] {
            for f in &fields[p] {
                if !inherited.contains(&f.name) {
                    inherited.push(f.name.clone());
                }
            }
        }
        for fname in inherited {
            let versions: Vec<&GField> =
                h.implements[i].iter().filter_map(|&p| fields[p].iter().find(|f| f.name == fname)).collect();
            let shapes: Vec<Shape> = versions.iter().map(|f| shape_of(&f.ty)).collect();
            let shape_refs: Vec<&Shape> = shapes.iter().collect();
            let nulls = narrow_nulls(rng, &shape_refs);
            let bases: Vec<&String> = shapes.iter().map(|s| &s.base).collect();
            let base = if SCALARS.contains(&bases[0].as_str()) {
                bases[0].clone()
            } else {
                // a vertex type below every parent's target
                let idx: Vec<usize> = bases.iter().map(|b| h.names.iter().position(|x| x == *b).unwrap()).collect();
                let cands: Vec<usize> = (0..n).filter(|&y| idx.iter().all(|&b| h.below(y, b))).collect();
                if cands.is_empty() {
                    return None;
                }
                // prefer keeping a parent's target when possible
                let keep: Vec<usize> = cands.iter().copied().filter(|y| idx.contains(y)).collect();
                if !keep.is_empty() && rng.chance(1, 2) {
                    h.names[*rng.pick(&keep)].clone()
                } else {
                    h.names[*rng.pick(&cands)].clone()
                }
            };
            // parameters: the same names; a level may be nullable only... it MUST be nullable where any parent is
            let mut args = vec![];
            for pa in &versions[0].args {
                let pshapes: Vec<Shape> =
                    versions.iter().map(|v| shape_of(&v.args.iter().find(|a| a.name == pa.name).unwrap().ty)).collect();
                let nn: Vec<bool> = (0..pshapes[0].nulls.len())
                    .map(|l| if pshapes.iter().any(|s| s.nulls[l]) { true } else { rng.chance(1, 3) })
                    .collect();
                let sh = Shape { base: pshapes[0].base.clone(), nulls: nn };
                let default = if rng.chance(1, 2) { valid_literal(rng, &sh, 0) } else { None };
                args.push(GArg { name: pa.name.clone(), ty: shape_text(&sh), default });
            }
            // the order of parameters is irrelevant
            if args.len() > 1 && rng.chance(1, 2) {
                args.reverse();
            }
            fs.push(GField { name: fname, args, ty: shape_text(&Shape { base, nulls }) });
        }
        // own fields
        let nprops = rng.below(4);
        let nedges = rng.below(3);
        for _ in 0..nprops {
            counter += 1;
            let sh = if rng.chance(1, 40) {
                Shape { base: "Int".into(), nulls: (0..=30).map(|_| rng.chance(1, 2)).collect() }
            } else {
                random_scalar_shape(rng)
            };
            fs.push(GField { name: format!("p{counter}"), args: vec![], ty: shape_text(&sh) });
        }
        for _ in 0..nedges {
            counter += 1;
            let target = h.names[rng.below(n)].clone();
            let nulls = if rng.chance(1, 2) { vec![rng.chance(1, 2)] } else { vec![rng.chance(1, 2), rng.chance(1, 2)] };
            fs.push(GField { name: format!("e{counter}"), args: random_params(rng), ty: shape_text(&Shape { base: target, nulls }) });
        }
        if fs.is_empty() {
            counter += 1;
            fs.push(GField { name: format!("p{counter}"), args: vec![], ty: "Int".into() });
        }
        // field order is irrelevant
        for a in (1..fs.len()).rev() {
            let b = rng.below(a + 1);
            fs.swap(a, b);
        }
        fields.push(fs);
    }
    // root: entry points
    let nentry = 1 + rng.below(4);
    let mut rfields = vec![];
    for k in 0..nentry {
        let target = h.names[rng.below(n)].clone();
        let nulls = if rng.chance(1, 3) { vec![rng.chance(1, 2)] } else { vec![rng.chance(1, 2), rng.chance(1, 2)] };
        let name = if rng.chance(1, 2) { format!("{}{}", target, k) } else { format!("entry{k}") };
        rfields.push(GField { name, args: random_params(rng), ty: shape_text(&Shape { base: target, nulls }) });
    }
    let mut defs: Vec<GDef> = vec![];
    for i in 0..n {
        defs.push(GDef::Type(GTy {
            name: h.names[i].clone(),
            iface: h.iface[i],
            implements: h.implements[i].iter().map(|&j| h.names[j].clone()).collect(),
            fields: fields[i].clone(),
        }));
    }
    defs.push(GDef::Type(GTy { name: root.clone(), iface: false, implements: vec![], fields: rfields }));
    if rng.chance(2, 3) {
        for line in Schema::ALL_DIRECTIVE_DEFINITIONS.lines().filter(|l| !l.trim().is_empty()) {
            defs.push(GDef::Directive(line.to_string()));
        }
    } else if rng.chance(1, 2) {
        defs.push(GDef::Directive("directive @custom(x: Int = 3) on FIELD".into()));
    }
    for sc in ["Date", "Url"] {
        if rng.chance(1, 5) {
            defs.push(GDef::Scalar(sc.to_string()));
        }
    }
    // a scalar may share its name with a vertex type: they live in different maps
    if rng.chance(1, 25) {
        defs.push(GDef::Scalar(h.names[0].clone()));
    }
    defs.push(GDef::Schema(root.clone()));
    // document order is irrelevant for validity
    for a in (1..defs.len()).rev() {
        let b = rng.below(a + 1);
        defs.swap(a, b);
    }
    Some(GDoc { defs, root })
}

fn gen_valid_retry(rng: &mut Rng) -> GDoc {
    loop {
        if let Some(d) = gen_valid(rng) {
            return d;
        }
    }
}

// ------------------------------------------------------------------ violations

/// What the generator expects of the implementation on a mutated document.
#[derive(Clone, Debug, Default)]
struct Expect {
    required: BTreeSet<String>, // kinds that must be reported
    allowed: BTreeSet<String>,  // kinds that may additionally be reported
    early: bool,                // an early-return error (duplicate type / field): exactly one error is reported
    combo: bool,                // several violations are being combined
    applied: Vec<String>,
}

impl Expect {
    fn req(&mut self, k: &str) {
        self.required.insert(k.to_string());
    }
    fn allow(&mut self, ks: &[&str]) {
        for k in ks {
            self.allowed.insert(k.to_string());
        }
    }
}

const N_VIOLATIONS: usize = 22;
/// violations that rewrite an existing type of the valid schema (at most one per combination)
fn rewrites_existing(v: usize) -> bool {
    (2..=7).contains(&v)
}

fn fresh_field(rng: &mut Rng, d: &GDoc, t: &str, stem: &str) -> String {
    loop {
        let n = format!("{}{}", stem, rng.below(1000));
        if !d.ty(t).map(|x| x.fields.iter().any(|f| f.name == n)).unwrap_or(false) {
            return n;
        }
    }
}

fn push_field(d: &mut GDoc, t: &str, f: GField) {
    d.ty_mut(t).unwrap().fields.push(f);
}

fn ensure_scalar(d: &mut GDoc, n: &str) {
    if !d.defs.iter().any(|x| matches!(x, GDef::Scalar(s) if s == n)) {
        d.defs.push(GDef::Scalar(n.to_string()));
    }
}

fn is_scalar_field(f: &GField) -> bool {
    SCALARS.contains(&shape_of(&f.ty).base.as_str())
}

/// fields of `t` that some implemented interface also defines, with one such interface
fn inherited_fields(d: &GDoc, t: &GTy) -> Vec<(String, String)> {
    let mut v = vec![];
    for f in &t.fields {
        for i in &t.implements {
            if let Some(it) = d.ty(i) {
                if it.fields.iter().any(|x| x.name == f.name) {
                    v.push((f.name.clone(), i.clone()));
                    break;
                }
            }
        }
    }
    v
}

/// Apply violation `v` to `d`; false when it is not applicable to this document.
fn apply_violation(rng: &mut Rng, d: &mut GDoc, v: usize, ex: &mut Expect) -> bool {
    let leaves = d.leaves();
    // (first definition of each name: what ty()/ty_mut() address)
    let mut all_types: Vec<GTy> = vec![];
    for t in d.types() {
        if !all_types.iter().any(|x| x.name == t.name) {
            all_types.push(t.clone());
        }
    }
    let non_root: Vec<GTy> = all_types.iter().filter(|t| t.name != d.root).cloned().collect();
    // violations that rewrite a type only touch the types of the underlying valid schema (never the
    // root, never the types added by other violations), so that violations do not undo each other
    let types: Vec<GTy> = if rewrites_existing(v) {
        all_types.iter().filter(|t| TYPE_NAMES.contains(&t.name.as_str())).cloned().collect()
    } else {
        all_types.clone()
    };
    if types.is_empty() {
        return false;
    }
    let label: &str;
    match v {
        0 => {
            // implements a type that does not exist
            let t = rng.pick(&types).name.clone();
            let nope = d.fresh_type_name(rng, "Nope");
            d.ty_mut(&t).unwrap().implements.push(nope);
            ex.req("NonExistent");
            if !d.implementers(&t).is_empty() {
                // the implementers of `t` would have to list the missing type as well
                ex.allow(&["MissingTransitive"]);
            }
            label = "implements-nonexistent";
        }
        1 => {
            // implements an object type (a fresh one, whose single field is copied)
            let t = rng.pick(&leaves).clone();
            let o = d.fresh_type_name(rng, "Obj");
            let fname = fresh_field(rng, d, &t, "of");
            d.defs.push(GDef::Type(GTy { name: o.clone(), iface: false, implements: vec![], fields: vec![GField { name: fname.clone(), args: vec![], ty: "Int".into() }] }));
            let tt = d.ty_mut(&t).unwrap();
            tt.implements.push(o);
            tt.fields.push(GField { name: fname, args: vec![], ty: "Int".into() });
            ex.req("NonInterface");
            label = "implements-object";
        }
        2 => {
            // drop a transitively required interface
            let mut cands = vec![];
            for t in &types {
                for a in &t.implements {
                    if let Some(at) = d.ty(a) {
                        for b in &at.implements {
                            if t.implements.contains(b) {
                                cands.push((t.name.clone(), b.clone()));
                            }
                        }
                    }
                }
            }
            if cands.is_empty() {
                return false;
            }
            let (t, b) = rng.pick(&cands).clone();
            d.ty_mut(&t).unwrap().implements.retain(|x| *x != b);
            ex.req("MissingTransitive");
            label = "missing-transitive";
        }
        3 => {
            // drop an inherited field
            let cands: Vec<(String, String)> = types
                .iter()
                .flat_map(|t| inherited_fields(d, t).into_iter().map(|(f, _)| (t.name.clone(), f)))
                .filter(|(t, f)| d.ty(t).unwrap().fields.iter().filter(|x| x.name == *f).count() == 1)
                .collect();
            if cands.is_empty() {
                return false;
            }
            let (t, f) = rng.pick(&cands).clone();
            d.ty_mut(&t).unwrap().fields.retain(|x| x.name != f);
            ex.req("MissingField");
            label = "missing-field";
        }
        4 => {
            // widen the type of an inherited field
            let mut cands = vec![];
            for t in &types {
                for (f, i) in inherited_fields(d, t) {
                    cands.push((t.name.clone(), f, i));
                }
            }
            if cands.is_empty() {
                return false;
            }
            let (t, f, i) = rng.pick(&cands).clone();
            let pf = d.ty(&i).unwrap().fields.iter().find(|x| x.name == f).unwrap().clone();
            let psh = shape_of(&pf.ty);
            let scalar = SCALARS.contains(&psh.base.as_str());
            let mut opts: Vec<String> = vec![];
            if let Some(l) = psh.nulls.iter().position(|x| !*x) {
                let mut sh = psh.clone();
                sh.nulls[l] = true;
                opts.push(shape_text(&sh));
            }
            if scalar {
                let other = SCALARS.iter().find(|s| **s != psh.base).unwrap();
                opts.push(shape_text(&Shape { base: other.to_string(), nulls: psh.nulls.clone() }));
                let mut deeper = psh.clone();
                deeper.nulls.insert(0, true);
                opts.push(shape_text(&deeper));
                if psh.nulls.len() > 1 {
                    opts.push(shape_text(&Shape { base: psh.base.clone(), nulls: psh.nulls[1..].to_vec() }));
                }
            } else {
                // a vertex type that is not below the parent's target
                for u in &non_root {
                    let below = u.name == psh.base || u.implements.contains(&psh.base);
                    if !below {
                        opts.push(shape_text(&Shape { base: u.name.clone(), nulls: psh.nulls.clone() }));
                    }
                }
                if psh.nulls.len() == 1 {
                    opts.push(format!("[{}]", pf.ty));
                } else {
                    opts.push(shape_text(&Shape { base: psh.base.clone(), nulls: psh.nulls[1..].to_vec() }));
                }
            }
            if opts.is_empty() {
                return false;
            }
            let new_ty = rng.pick(&opts).clone();
            d.ty_mut(&t).unwrap().fields.iter_mut().find(|x| x.name == f).unwrap().ty = new_ty;
            ex.req("Widening");
            label = "widening";
        }
        5 | 6 | 7 => {
            // parameters of an inherited edge on a leaf type
            let mut cands = vec![];
            for t in types.iter().filter(|t| leaves.contains(&t.name)) {
                for (f, i) in inherited_fields(d, t) {
                    let pf = d.ty(&i).unwrap().fields.iter().find(|x| x.name == f).unwrap();
                    if !is_scalar_field(pf) && (v == 6 || !pf.args.is_empty()) {
                        cands.push((t.name.clone(), f.clone()));
                    }
                }
            }
            if cands.is_empty() {
                return false;
            }
            let (t, f) = rng.pick(&cands).clone();
            let fld = d.ty_mut(&t).unwrap().fields.iter_mut().find(|x| x.name == f).unwrap();
            match v {
                5 => {
                    let k = rng.below(fld.args.len());
                    fld.args.remove(k);
                    ex.req("MissingParams");
                    label = "missing-parameter";
                }
                6 => {
                    fld.args.push(GArg { name: format!("extra{}", rng.below(10)), ty: "Int".into(), default: None });
                    ex.req("UnexpectedParams");
                    label = "unexpected-parameter";
                }
                _ => {
                    let k = rng.below(fld.args.len());
                    let sh = shape_of(&fld.args[k].ty);
                    let mut opts = vec![];
                    // the parents of this parameter are all nullable where the child is: making any
                    // level non-null is a narrowing only if a parent is nullable there; changing the
                    // base or the list depth always is
                    let other = SCALARS.iter().find(|s| **s != sh.base).unwrap();
                    opts.push(shape_text(&Shape { base: other.to_string(), nulls: sh.nulls.clone() }));
                    let mut deeper = sh.clone();
                    deeper.nulls.insert(0, true);
                    opts.push(shape_text(&deeper));
                    fld.args[k].ty = rng.pick(&opts).clone();
                    fld.args[k].default = None;
                    ex.req("ParamNarrowing");
                    label = "parameter-narrowing";
                }
            }
        }
        8 => {
            // a default value that does not fit (on an edge that does not point to the root)
            let mut cands = vec![];
            for t in &types {
                for f in &t.fields {
                    let base = shape_of(&f.ty).base;
                    // in combinations only fields no other violation rewrites (not inherited ones)
                    let inherited = inherited_fields(d, t).iter().any(|(n, _)| *n == f.name);
                    if !is_scalar_field(f) && base != d.root && d.ty(&base).is_some() && !(ex.combo && inherited) {
                        for (k, _) in f.args.iter().enumerate() {
                            cands.push((t.name.clone(), f.name.clone(), k));
                        }
                    }
                }
            }
            if cands.is_empty() {
                // add a fresh parameterised edge to a leaf
                let t = rng.pick(&leaves).clone();
                let target = rng.pick(&non_root).name.clone();
                let sh = random_scalar_shape(rng);
                let bad = invalid_literal(rng, &sh);
                { let nf = GField {
                    name: fresh_field(rng, d, &t, "bd"),
                    args: vec![GArg { name: "q".into(), ty: shape_text(&sh), default: Some(bad) }],
                    ty: target,
                }; push_field(d, &t, nf) };
            } else {
                let (t, f, k) = rng.pick(&cands).clone();
                let a = &mut d.ty_mut(&t).unwrap().fields.iter_mut().find(|x| x.name == f && x.args.len() > k).unwrap().args[k];
                let sh = shape_of(&a.ty);
                a.default = Some(invalid_literal(rng, &sh));
            }
            ex.req("BadDefault");
            label = "bad-default";
        }
        9 => {
            // an interface implementing itself
            let n = d.fresh_type_name(rng, "Self");
            d.defs.push(GDef::Type(GTy { name: n.clone(), iface: true, implements: vec![n.clone()], fields: vec![GField { name: "sf".into(), args: vec![], ty: "Int".into() }] }));
            ex.req("Circular");
            label = "self-implementing";
        }
        10 => {
            // a 2- or 3-cycle of fresh interfaces sharing one field
            let k = 2 + rng.below(2);
            let stem = d.fresh_type_name(rng, "Cyc");
            let names: Vec<String> = (0..k).map(|i| format!("{stem}x{i}")).collect();
            for i in 0..k {
                let mut imp = vec![names[(i + 1) % k].clone()];
                if k == 3 {
                    // keep the transitive rule satisfied: everyone lists everyone else
                    imp.push(names[(i + 2) % k].clone());
                }
                d.defs.push(GDef::Type(GTy { name: names[i].clone(), iface: true, implements: imp, fields: vec![GField { name: "cf".into(), args: vec![], ty: "String".into() }] }));
            }
            ex.req("Circular");
            label = "implements-cycle";
        }
        11 => {
            // two unrelated interfaces defining the same field
            let a = d.fresh_type_name(rng, "AmbA");
            let b = d.fresh_type_name(rng, "AmbB");
            let t = d.fresh_type_name(rng, "AmbT");
            let f = GField { name: "amb".into(), args: vec![], ty: "String".into() };
            d.defs.push(GDef::Type(GTy { name: a.clone(), iface: true, implements: vec![], fields: vec![f.clone()] }));
            d.defs.push(GDef::Type(GTy { name: b.clone(), iface: true, implements: vec![], fields: vec![f.clone()] }));
            d.defs.push(GDef::Type(GTy { name: t, iface: rng.chance(1, 2), implements: vec![a, b], fields: vec![f] }));
            ex.req("Ambiguous");
            label = "ambiguous-origin";
        }
        12 => {
            let t = rng.pick(&leaves).clone();
            let sh = random_scalar_shape(rng);
            { let nf = GField {
                name: fresh_field(rng, d, &t, "pp"),
                args: vec![GArg { name: "x".into(), ty: "Int".into(), default: if rng.chance(1, 2) { Some("\"not an int\"".into()) } else { None } }],
                ty: shape_text(&sh),
            }; push_field(d, &t, nf) };
            ex.req("PropertyParams");
            label = "property-with-parameters";
        }
        13 => {
            let t = if rng.chance(1, 3) { d.root.clone() } else { rng.pick(&leaves).clone() };
            let target = rng.pick(&non_root).name.clone();
            let depth = 2 + rng.below(2);
            let sh = Shape { base: target, nulls: (0..=depth).map(|_| rng.chance(1, 2)).collect() };
            { let nf = GField { name: fresh_field(rng, d, &t, "ll"), args: random_params(rng), ty: shape_text(&sh) }; push_field(d, &t, nf) };
            ex.req("InvalidEdgeType");
            label = "list-of-list-edge";
        }
        14 => {
            let t = if rng.chance(1, 3) { d.root.clone() } else { rng.pick(&leaves).clone() };
            let unknown = if rng.chance(1, 2) {
                // a declared custom scalar is still not a usable field type
                ensure_scalar(d, "Stamp");
                "Stamp".to_string()
            } else {
                d.fresh_type_name(rng, "Unknown")
            };
            let sh = Shape { base: unknown, nulls: (0..=rng.below(3)).map(|_| rng.chance(1, 2)).collect() };
            { let nf = GField { name: fresh_field(rng, d, &t, "uk"), args: random_params(rng), ty: shape_text(&sh) }; push_field(d, &t, nf) };
            ex.req("UnknownType");
            label = "unknown-field-type";
        }
        15 => {
            let root = d.root.clone();
            let sh = random_scalar_shape(rng);
            { let nf = GField { name: fresh_field(rng, d, &root, "rp"), args: vec![], ty: shape_text(&sh) }; push_field(d, &root, nf) };
            ex.req("RootProperty");
            label = "property-on-root";
        }
        16 => {
            let t = if rng.chance(1, 3) { d.root.clone() } else { rng.pick(&leaves).clone() };
            let root = d.root.clone();
            let nulls = if rng.chance(1, 2) { vec![rng.chance(1, 2)] } else { (0..=1 + rng.below(2)).map(|_| rng.chance(1, 2)).collect() };
            // (an edge into the root is reported as such even when it is a list of lists or has bad defaults)
            { let nf = GField {
                name: fresh_field(rng, d, &t, "tr"),
                args: if rng.chance(1, 2) { vec![GArg { name: "z".into(), ty: "Int!".into(), default: Some("null".into()) }] } else { vec![] },
                ty: shape_text(&Shape { base: root, nulls }),
            }; push_field(d, &t, nf) };
            ex.req("EdgeToRoot");
            label = "edge-to-root";
        }
        17 => {
            let t = if rng.chance(1, 3) { d.root.clone() } else { rng.pick(&leaves).clone() };
            let ty = if t == d.root || rng.chance(1, 2) { rng.pick(&non_root).name.clone() } else { "Int".to_string() };
            { let nf = GField { name: fresh_field(rng, d, &t, "__r"), args: vec![], ty }; push_field(d, &t, nf) };
            ex.req("ReservedField");
            label = "reserved-field-name";
        }
        18 => {
            let n = format!("__T{}", rng.below(100));
            d.defs.push(GDef::Type(GTy { name: n, iface: rng.chance(1, 2), implements: vec![], fields: vec![GField { name: "a".into(), args: vec![], ty: "Int".into() }] }));
            ex.req("ReservedType");
            label = "reserved-type-name";
        }
        19 => {
            // the same vertex type name twice (object/interface in any combination)
            let t = rng.pick(&types).clone();
            let mut dup = t.clone();
            if rng.chance(1, 2) {
                dup.iface = !dup.iface;
            }
            if rng.chance(1, 2) {
                dup.fields = vec![GField { name: "other".into(), args: vec![], ty: "Int".into() }];
            }
            let pos = rng.below(d.defs.len() + 1);
            d.defs.insert(pos, GDef::Type(dup));
            ex.early = true;
            ex.req("DuplicateType");
            label = "duplicate-type";
        }
        20 => {
            let t = rng.pick(&types).name.clone();
            let tt = d.ty_mut(&t).unwrap();
            let mut f = rng.pick(&tt.fields).clone();
            if rng.chance(1, 2) {
                f.ty = "String".into();
                f.args = vec![];
            }
            let pos = rng.below(tt.fields.len() + 1);
            tt.fields.insert(pos, f);
            ex.early = true;
            ex.req("DuplicateField");
            label = "duplicate-field";
        }
        _ => {
            // the root query type implements an interface with a property: the inherited property is
            // a property on the root
            let root = d.root.clone();
            let i = d.fresh_type_name(rng, "RootI");
            let f = GField { name: fresh_field(rng, d, &root, "rip"), args: vec![], ty: "Int".into() };
            d.defs.push(GDef::Type(GTy { name: i.clone(), iface: true, implements: vec![], fields: vec![f.clone()] }));
            let rt = d.ty_mut(&root).unwrap();
            rt.implements.push(i);
            rt.fields.push(f);
            ex.req("RootProperty");
            label = "root-inherits-property";
        }
    }
    ex.applied.push(label.to_string());
    // knock-on errors of rewriting an existing type: its implementers are compared with it too
    if rewrites_existing(v) || v == 2 {
        ex.allow(&["Widening", "MissingParams", "UnexpectedParams", "ParamNarrowing", "InvalidEdgeType"]);
    }
    if v == 4 {
        // a widened edge may now be a list of lists
        ex.allow(&["InvalidEdgeType"]);
    }
    true
}

// ------------------------------------------------------------------ F12 constructs

const N_F12: usize = 16;

/// Mutations producing the known panics.  Returns (label, expected class) or None.
fn apply_f12(rng: &mut Rng, d: &mut GDoc, v: usize) -> Option<(String, &'static str)> {
    let leaves = d.leaves();
    let non_root: Vec<String> = d.types().into_iter().filter(|t| t.name != d.root).map(|t| t.name.clone()).collect();
    match v {
        0 => {
            d.defs.retain(|x| !matches!(x, GDef::Schema(_)));
            Some(("no-schema-block".into(), "K-no-schema-block"))
        }
        1 => {
            let q = if rng.chance(1, 2) { d.root.clone() } else { rng.pick(&non_root).clone() };
            let pos = rng.below(d.defs.len() + 1);
            d.defs.insert(pos, GDef::Schema(q));
            Some(("two-schema-blocks".into(), "K-dup-schema-block"))
        }
        2 => {
            let n = (*rng.pick(&BUILTINS)).to_string();
            let pos = rng.below(d.defs.len() + 1);
            d.defs.insert(pos, GDef::Scalar(n));
            Some(("builtin-scalar-redeclared".into(), "K-builtin-scalar-redeclared"))
        }
        3 => {
            let n = (*rng.pick(&BUILTINS)).to_string();
            let pos = rng.below(d.defs.len() + 1);
            d.defs.insert(pos, GDef::Type(GTy { name: n, iface: rng.chance(1, 2), implements: vec![], fields: vec![GField { name: "v".into(), args: vec![], ty: "Int".into() }] }));
            Some(("vertex-type-named-as-builtin-scalar".into(), "K-builtin-scalar-redeclared"))
        }
        4 => {
            let n = "Date".to_string();
            d.defs.retain(|x| !matches!(x, GDef::Scalar(s) if *s == n));
            let p1 = rng.below(d.defs.len() + 1);
            d.defs.insert(p1, GDef::Scalar(n.clone()));
            let p2 = rng.below(d.defs.len() + 1);
            d.defs.insert(p2, GDef::Scalar(n));
            Some(("duplicate-scalar".into(), "K-dup-scalar"))
        }
        5 => {
            let existing: Vec<String> = d.defs.iter().filter_map(|x| if let GDef::Directive(t) = x { Some(t.clone()) } else { None }).collect();
            let t = if existing.is_empty() {
                let t = "directive @twice on FIELD".to_string();
                d.defs.push(GDef::Directive(t.clone()));
                t
            } else {
                rng.pick(&existing).clone()
            };
            let pos = rng.below(d.defs.len() + 1);
            d.defs.insert(pos, GDef::Directive(t));
            Some(("duplicate-directive".into(), "K-dup-directive"))
        }
        6 => {
            let q = if rng.chance(1, 2) {
                ensure_scalar(d, "Stamp");
                "Stamp".to_string()
            } else {
                d.fresh_type_name(rng, "Missing")
            };
            for x in d.defs.iter_mut() {
                if let GDef::Schema(s) = x {
                    *s = q.clone();
                }
            }
            Some(("undefined-query-type".into(), "K-undefined-query-type"))
        }
        7 => {
            let ifaces: Vec<String> = d.types().into_iter().filter(|t| t.iface).map(|t| t.name.clone()).collect();
            let q = if ifaces.is_empty() {
                let n = d.fresh_type_name(rng, "IQ");
                d.defs.push(GDef::Type(GTy { name: n.clone(), iface: true, implements: vec![], fields: vec![GField { name: "e".into(), args: vec![], ty: non_root[0].clone() }] }));
                n
            } else {
                rng.pick(&ifaces).clone()
            };
            for x in d.defs.iter_mut() {
                if let GDef::Schema(s) = x {
                    *s = q.clone();
                }
            }
            Some(("interface-query-type".into(), "K-interface-query-type"))
        }
        8 => {
            // a property with 31..33 nested lists
            let t = rng.pick(&leaves).clone();
            let depth = 31 + rng.below(3);
            let sh = Shape { base: "Int".into(), nulls: (0..=depth).map(|_| rng.chance(1, 2)).collect() };
            d.ty_mut(&t).unwrap().fields.push(GField { name: "deep".into(), args: vec![], ty: shape_text(&sh) });
            Some(("31-nested-lists-property".into(), "K-list-depth"))
        }
        9 => {
            // an edge (also unknown / root targets) with 31 nested lists
            let t = if rng.chance(1, 3) { d.root.clone() } else { rng.pick(&leaves).clone() };
            let base = match rng.below(3) {
                0 => "Nowhere".to_string(),
                1 => d.root.clone(),
                _ => rng.pick(&non_root).clone(),
            };
            let sh = Shape { base, nulls: (0..=31).map(|_| rng.chance(1, 2)).collect() };
            d.ty_mut(&t).unwrap().fields.push(GField { name: "deepedge".into(), args: vec![], ty: shape_text(&sh) });
            Some(("31-nested-lists-edge".into(), "K-list-depth"))
        }
        10 => {
            // a parameter with 31 nested lists and a default value (from_type is only reached then)
            let t = rng.pick(&leaves).clone();
            let sh = Shape { base: "Int".into(), nulls: (0..=31).map(|_| true).collect() };
            d.ty_mut(&t).unwrap().fields.push(GField {
                name: "deepparam".into(),
                args: vec![GArg { name: "x".into(), ty: shape_text(&sh), default: Some("null".into()) }],
                ty: rng.pick(&non_root).clone(),
            });
            Some(("31-nested-lists-parameter-with-default".into(), "K-list-depth"))
        }
        11 => {
            // an enum literal as a default value
            let t = if rng.chance(1, 3) { d.root.clone() } else { rng.pick(&leaves).clone() };
            let (ty, lit) = match rng.below(4) {
                0 => ("Int", "FOO"),
                1 => ("String", "bar"),
                2 => ("[Int]", "[FOO]"),
                _ => ("[String!]", "[\"a\", B]"),
            };
            d.ty_mut(&t).unwrap().fields.push(GField {
                name: "enumdefault".into(),
                args: vec![GArg { name: "x".into(), ty: ty.into(), default: Some(lit.into()) }],
                ty: rng.pick(&non_root).clone(),
            });
            Some(("enum-default-value".into(), "K-enum-default"))
        }
        12 => {
            // duplicate type BEFORE the second schema block: early Err, no panic; AFTER it: panic
            let t = d.types()[0].clone();
            d.defs.push(GDef::Type(t));
            d.defs.push(GDef::Schema(d.root.clone()));
            if rng.chance(1, 2) {
                let n = d.defs.len();
                d.defs.swap(n - 1, n - 2);
            }
            Some(("dup-type-and-dup-schema".into(), "K-dup-schema-block"))
        }
        13 => {
            // no schema block but a duplicate field: early Err wins
            d.defs.retain(|x| !matches!(x, GDef::Schema(_)));
            let t = d.types()[0].name.clone();
            let tt = d.ty_mut(&t).unwrap();
            let f = tt.fields[0].clone();
            tt.fields.push(f);
            Some(("no-schema-block-but-duplicate-field".into(), "K-no-schema-block"))
        }
        14 => {
            // a parameter with 31 nested lists WITHOUT default on a non-inherited edge: never converted
            let t = rng.pick(&leaves).clone();
            let sh = Shape { base: "Int".into(), nulls: (0..=31).map(|_| true).collect() };
            d.ty_mut(&t).unwrap().fields.push(GField {
                name: "deepparam".into(),
                args: vec![GArg { name: "x".into(), ty: shape_text(&sh), default: None }],
                ty: rng.pick(&non_root).clone(),
            });
            Some(("31-nested-lists-parameter-no-default".into(), "K-list-depth"))
        }
        _ => {
            // an inherited parameter with 31 nested lists (converted by the narrowing check)
            let i = d.fresh_type_name(rng, "DeepI");
            let t = d.fresh_type_name(rng, "DeepT");
            let sh = Shape { base: "Int".into(), nulls: (0..=31).map(|_| true).collect() };
            let f = GField { name: "dp".into(), args: vec![GArg { name: "x".into(), ty: shape_text(&sh), default: None }], ty: non_root[0].clone() };
            d.defs.push(GDef::Type(GTy { name: i.clone(), iface: true, implements: vec![], fields: vec![f.clone()] }));
            d.defs.push(GDef::Type(GTy { name: t, iface: false, implements: vec![i], fields: vec![f] }));
            Some(("31-nested-lists-inherited-parameter".into(), "K-list-depth"))
        }
    }
}

// ------------------------------------------------------------------ one document

struct Ctx<'a> {
    out: &'a mut Out,
    oracle_only: bool,
    seen: BTreeSet<String>,
}

#[derive(Clone, Debug)]
enum Expected {
    Unknown,
    Accept,
    Exact(Vec<(String, String)>),
    Kinds(Expect),
}

fn kinds_of(v: &Verdict) -> BTreeSet<String> {
    match v {
        Verdict::Reject(es) => es.iter().map(|x| x.0.clone()).collect(),
        _ => BTreeSet::new(),
    }
}

/// Run one document (already parsed, or built programmatically) through everything.
fn process_doc(cx: &mut Ctx, origin: &str, label: &str, text: Option<&str>, doc: &ServiceDocument, expected: &Expected) {
    let input = json!({"origin": origin, "what": label, "schema": text});
    let verdict = run_new(doc);
    let classes = known_classes(doc);
    cx.out.count(&format!("origin:{origin}"));
    cx.out.count(&format!(
        "verdict:{}",
        match &verdict {
            Verdict::Accept => "accept",
            Verdict::Reject(_) => "reject",
            Verdict::Panicked => "panic",
        }
    ));
    for k in kinds_of(&verdict) {
        cx.out.count(&format!("error:{k}"));
    }
    // --- direct oracle 1: never panics
    if verdict == Verdict::Panicked {
        let what = "Schema::new panicked instead of returning a schema or an InvalidSchemaError";
        match classes.first() {
            Some(c) => {
                cx.out.count(&format!("panic:{c}"));
                cx.out.oracle_fail_class(c, what, input.clone(), json!({"classes": classes, "label": label}))
            }
            None => cx.out.oracle_fail(what, input.clone(), json!({"label": label})),
        }
    }
    // --- direct oracle 2: Schema::parse(text) behaves like Schema::new(parse_schema(text))
    if let Some(t) = text {
        let vp = run_parse(t);
        if vp != verdict {
            cx.out.oracle_fail("Schema::parse and Schema::new disagree", input.clone(), json!({"parse": render(&vp), "new": render(&verdict)}));
        }
    }
    // --- direct oracle 3: the generator's expectation (valid => accepted; violated rules => those errors)
    if verdict != Verdict::Panicked {
        match expected {
            Expected::Unknown => {}
            Expected::Accept => {
                if verdict != Verdict::Accept {
                    cx.out.oracle_fail("a schema satisfying every documented rule was rejected", input.clone(), json!({"impl": render(&verdict)}));
                }
            }
            Expected::Exact(es) => {
                if verdict != Verdict::Reject(es.clone()) {
                    cx.out.oracle_fail("the repository's expected schema error was not reproduced", input.clone(), json!({"impl": render(&verdict), "expected": render(&Verdict::Reject(es.clone()))}));
                }
            }
            Expected::Kinds(ex) => {
                let got = kinds_of(&verdict);
                let mut ex = ex.clone();
                if ex.required.contains("Circular") && ex.required.remove("Ambiguous") {
                    // field origins are not computed when the implements relation is circular
                    ex.allowed.insert("Ambiguous".into());
                }
                let ok = match &verdict {
                    Verdict::Accept => false,
                    Verdict::Reject(es) => {
                        if ex.early {
                            es.len() == 1 && (got.contains("DuplicateType") || got.contains("DuplicateField"))
                        } else {
                            ex.required.is_subset(&got) && got.iter().all(|k| ex.required.contains(k) || ex.allowed.contains(k))
                        }
                    }
                    Verdict::Panicked => true,
                };
                if !ok {
                    cx.out.oracle_fail(
                        "a schema violating known rules was accepted, or rejected with other error kinds than the violated rules",
                        input.clone(),
                        json!({"impl": render(&verdict), "violations": ex.applied, "required": ex.required, "allowed": ex.allowed, "early": ex.early}),
                    );
                }
            }
        }
    }
    // --- tie with the model
    if cx.oracle_only {
        return;
    }
    let Some(ast) = cdoc(doc) else {
        cx.out.count("skipped:unsupported-construct");
        return;
    };
    let key = ast.clone();
    if !cx.seen.insert(key.clone()) {
        cx.out.count("skipped:duplicate-document");
        return;
    }
    let ntypes = doc
        .definitions
        .iter()
        .filter(|d| matches!(d, TypeSystemDefinition::Type(t) if matches!(t.node.kind, TypeKind::Object(_) | TypeKind::Interface(_))))
        .count();
    let has_impl = doc.definitions.iter().any(|d| match d {
        TypeSystemDefinition::Type(t) => match &t.node.kind {
            TypeKind::Object(o) => !o.implements.is_empty(),
            TypeKind::Interface(o) => !o.implements.is_empty(),
            _ => false,
        },
        _ => false,
    });
    cx.out.add(Case {
        input,
        coq: format!("show_schema_result (schema_new {ast})"),
        imp: render(&verdict),
        nontrivial: ntypes >= 2 && (has_impl || verdict != Verdict::Accept),
        key,
    });
}

fn process_text(cx: &mut Ctx, origin: &str, label: &str, text: &str, expected: &Expected) {
    match parse_schema(text) {
        Ok(doc) => process_doc(cx, origin, label, Some(text), &doc, expected),
        Err(e) => {
            cx.out.count("skipped:parse-error");
            // generated documents are meant to parse: make generator bugs visible
            if origin != "repo" {
                cx.out.oracle_fail("harness generated a document the parser rejects (harness bug)", json!({"origin": origin, "what": label, "schema": text}), json!({"error": e.to_string()}));
            }
        }
    }
}

// ------------------------------------------------------------------ fixed corpus

const HEAD: &str = "schema { query: Q }\ntype Q { t: T }\ntype T { a: Int }\n";

fn f12_witnesses() -> Vec<(&'static str, String)> {
    let deep = format!("{}Int{}", "[".repeat(31), "]".repeat(31));
    let deep30 = format!("{}Int{}", "[".repeat(30), "]".repeat(30));
    vec![
        ("K-no-schema-block minimal", "type Q { t: T }\ntype T { a: Int }\n".to_string()),
        ("K-dup-schema-block minimal", format!("{HEAD}schema {{ query: Q }}\n")),
        ("K-builtin-scalar-redeclared minimal", format!("{HEAD}scalar Int\n")),
        ("K-builtin-scalar-redeclared object", format!("{HEAD}type String {{ x: Int }}\n")),
        ("K-builtin-scalar-redeclared interface ID", format!("{HEAD}interface ID {{ x: Int }}\n")),
        ("K-dup-scalar minimal", format!("{HEAD}scalar Date\nscalar Date\n")),
        ("K-dup-directive minimal", format!("{HEAD}directive @d on FIELD\ndirective @d on FIELD\n")),
        ("K-undefined-query-type minimal", "schema { query: Q }\ntype T { a: Int }\n".to_string()),
        ("K-undefined-query-type scalar", "schema { query: Q }\nscalar Q\ntype T { a: Int }\n".to_string()),
        ("K-interface-query-type minimal", "schema { query: Q }\ninterface Q { t: T }\ntype T { a: Int }\n".to_string()),
        ("K-list-depth minimal", format!("schema {{ query: Q }}\ntype Q {{ t: T }}\ntype T {{ a: {deep} }}\n")),
        ("30 nested lists are fine", format!("schema {{ query: Q }}\ntype Q {{ t: T }}\ntype T {{ a: {deep30} }}\n")),
        ("K-list-depth parameter with default", format!("schema {{ query: Q }}\ntype Q {{ t(x: {deep} = null): T }}\ntype T {{ a: Int }}\n")),
        ("31-deep parameter without default is never converted", format!("schema {{ query: Q }}\ntype Q {{ t(x: {deep}): T }}\ntype T {{ a: Int }}\n")),
        ("31-deep parameter with an unconvertible default is never converted", format!("schema {{ query: Q }}\ntype Q {{ t(x: {deep} = {{a: 1}}): T }}\ntype T {{ a: Int }}\n")),
        ("K-enum-default minimal", "schema { query: Q }\ntype Q { t(x: Int = FOO): T }\ntype T { a: Int }\n".to_string()),
        ("enum default behind an earlier mismatch is not reached", "schema { query: Q }\ntype Q { t(x: [String] = [1, FOO]): T }\ntype T { a: Int }\n".to_string()),
        ("enum default on a property parameter is never validated", "schema { query: Q }\ntype Q { t: T }\ntype T { a(x: Int = FOO): Int }\n".to_string()),
        ("duplicate type before the second schema block: early error", format!("{HEAD}type T {{ b: Int }}\nschema {{ query: Q }}\n")),
        ("second schema block before the duplicate type: panic", format!("{HEAD}schema {{ query: Q }}\ntype T {{ b: Int }}\n")),
        ("no schema block but duplicate field: early error", "type Q { t: T }\ntype T { a: Int\n a: Int }\n".to_string()),
        ("scalar sharing a vertex type's name is fine", format!("{HEAD}scalar T\n")),
        ("custom scalar as a field type is unknown", format!("{HEAD}scalar Date\ntype U {{ d: Date }}\n")),
        ("type without fields", "schema { query: Q }\ntype Q { t: T }\ntype T\n".to_string()),
        ("duplicate parameter names: the later one counts", "schema { query: Q }\ntype Q { t: T }\ninterface I { e(x: Int, x: String): T }\ntype T implements I { e(x: String): T }\n".to_string()),
        ("implements listed twice", "schema { query: Q }\ntype Q { t: T }\ninterface I { a: Int }\ntype T implements I & I { a: Int }\n".to_string()),
        ("cycle plus a type waiting on it", "schema { query: Q }\ntype Q { t: T }\ninterface B implements C { a: Int }\ninterface C implements B { a: Int }\ntype T implements B & C { a: Int }\ninterface A0 implements B & C { a: Int }\n".to_string()),
    ]
}

fn corpus(cx: &mut Ctx) {
    // the harness world
    process_text(cx, "world", "harness world schema", &world::schema_text(), &Expected::Accept);
    // /repo schemas and tests
    let base = PathBuf::from("/repo/trustfall_core/test_data");
    for (dir, kind) in [("schemas", 0), ("tests/valid_schemas", 0), ("tests/schema_errors", 1)] {
        let mut files: Vec<PathBuf> = match std::fs::read_dir(base.join(dir)) {
            Ok(rd) => rd.filter_map(|e| e.ok()).map(|e| e.path()).filter(|p| p.extension().map(|x| x == "graphql").unwrap_or(false)).collect(),
            Err(_) => vec![],
        };
        files.sort();
        for f in files {
            let Ok(text) = std::fs::read_to_string(&f) else { continue };
            let label = format!("{}/{}", dir, f.file_name().unwrap().to_string_lossy());
            let expected = if kind == 0 {
                Expected::Accept
            } else {
                let ron_path = f.with_extension("schema-error.ron");
                match std::fs::read_to_string(&ron_path).ok().and_then(|s| ron::from_str::<InvalidSchemaError>(&s).ok()) {
                    Some(e) => {
                        let mut v = vec![];
                        flatten(&e, &mut v);
                        Expected::Exact(v)
                    }
                    None => Expected::Unknown,
                }
            };
            process_text(cx, "repo", &label, &text, &expected);
        }
    }
    // minimal witnesses of the known classes and of the boundaries around them
    for (label, text) in f12_witnesses() {
        process_text(cx, "witness", label, &text, &Expected::Unknown);
    }
    // AST-only documents (Schema::new is public and takes a ServiceDocument)
    let empty = ServiceDocument { definitions: vec![] };
    process_doc(cx, "ast-only", "empty ServiceDocument (K-no-schema-block)", None, &empty, &Expected::Unknown);
    if let Ok(mut doc) = parse_schema(HEAD) {
        for d in doc.definitions.iter_mut() {
            if let TypeSystemDefinition::Schema(s) = d {
                s.node.query = None;
            }
        }
        process_doc(cx, "ast-only", "schema block whose query is None (K-schema-without-query)", None, &doc, &Expected::Unknown);
    }
}

// ------------------------------------------------------------------ main

fn run(seed: u64, n: usize, oracle_only: bool, out: &mut Out) {
    let mut cx = Ctx { out, oracle_only, seen: BTreeSet::new() };
    corpus(&mut cx);
    let mut rng = Rng::new(seed ^ 0xC19);
    let mut viol_hist: BTreeMap<String, u64> = BTreeMap::new();
    for k in 0..n {
        let mut r = rng.fork();
        let mut d = gen_valid_retry(&mut r);
        match k % 20 {
            // (i) valid
            0..=5 => {
                process_text(&mut cx, "valid", "random valid schema", &d.text(), &Expected::Accept);
            }
            // (ii) one violation (cycling through all of them)
            6..=12 => {
                let mut ex = Expect::default();
                let v = r.below(N_VIOLATIONS);
                let mut done = false;
                // draw valid schemas until the violation is applicable (e.g. needs a 3-level hierarchy)
                for _ in 0..200 {
                    if apply_violation(&mut r, &mut d, v, &mut ex) {
                        done = true;
                        break;
                    }
                    d = gen_valid_retry(&mut r);
                }
                if done {
                    *viol_hist.entry(ex.applied[0].clone()).or_insert(0) += 1;
                    let label = format!("violation: {}", ex.applied.join(" + "));
                    process_text(&mut cx, "single-violation", &label, &d.text(), &Expected::Kinds(ex));
                }
            }
            // (iii) two or three violations
            13..=16 => {
                let mut ex = Expect::default();
                ex.combo = true;
                let want = 2 + r.below(2);
                let mut used_rewrite = false;
                let mut tries = 0;
                while ex.applied.len() < want && tries < 40 {
                    tries += 1;
                    let v = r.below(N_VIOLATIONS);
                    if rewrites_existing(v) {
                        if used_rewrite {
                            continue;
                        }
                        used_rewrite = true;
                    }
                    apply_violation(&mut r, &mut d, v, &mut ex);
                }
                for a in &ex.applied {
                    *viol_hist.entry(a.clone()).or_insert(0) += 1;
                }
                let label = format!("violations: {}", ex.applied.join(" + "));
                process_text(&mut cx, "combined-violations", &label, &d.text(), &Expected::Kinds(ex));
            }
            // (iv) F12 constructs, sometimes on top of a violation
            _ => {
                let mut ex = Expect::default();
                let mut labels = vec![];
                if r.chance(1, 3) {
                    let v = r.below(N_VIOLATIONS);
                    if apply_violation(&mut r, &mut d, v, &mut ex) {
                        labels.push(ex.applied[0].clone());
                    }
                }
                let v = r.below(N_F12);
                if let Some((l, _class)) = apply_f12(&mut r, &mut d, v) {
                    *viol_hist.entry(format!("F12:{l}")).or_insert(0) += 1;
                    labels.push(l);
                }
                let label = format!("F12 construct: {}", labels.join(" + "));
                process_text(&mut cx, "f12", &label, &d.text(), &Expected::Unknown);
            }
        }
    }
    for (k, v) in viol_hist {
        cx.out.count_n(&format!("applied:{k}"), v);
    }
}

fn probe(files: &[String]) {
    for f in files {
        let text = std::fs::read_to_string(f).unwrap();
        match parse_schema(&text) {
            Err(e) => println!("{f}: PARSE ERROR {e}"),
            Ok(doc) => {
                println!("{f}:\n  ast  = {}", cdoc(&doc).unwrap_or_else(|| "<unsupported construct>".into()));
                println!("  new  = {}", render(&run_new(&doc)));
                println!("  parse= {}", render(&run_parse(&text)));
                println!("  classes = {:?}", known_classes(&doc));
            }
        }
    }
}

fn main() {
    let argv: Vec<String> = std::env::args().collect();
    if argv.len() < 2 {
        eprintln!("usage: tfh_c19 c19 [--seed S] [--n N] [--out DIR] [--oracle-only] | tfh_c19 probe FILE...");
        std::process::exit(2);
    }
    if std::env::var("C19_LOUD").is_err() {
        std::panic::set_hook(Box::new(|_| {}));
    }
    match argv[1].as_str() {
        "c19" => {
            let args = parse_args(&argv[2..]);
            let mut o = Out::new(&args.out, "From TF Require Import Values Show Ty SchemaAst SchemaNew.", 40);
            run(args.seed, args.n, args.rest.iter().any(|x| x == "--oracle-only"), &mut o);
            o.finish();
        }
        "probe" => probe(&argv[2..]),
        other => {
            eprintln!("unknown subcommand {other}");
            std::process::exit(2);
        }
    }
}
