//! tfh_c23 — C23: query transformations with known effects change results exactly as predicted.
//!
//! usage: tfh_c23 c23 --seed S --n N --out DIR [--oracle-only]
//!
//! Metamorphic testing of the REAL frontend + interpreter on query TEXT.  Base cases come from the
//! engine generator (dataset + query accepted by the real frontend + arguments).  Each transformation
//! is applied textually to the generator's one-selection-per-line output format, the transformed
//! query is compiled by the real frontend (rejected => skipped and counted), both queries are run on
//! the same dataset with GraphAdapter, and the predicted relation between the two row MULTISETS is
//! checked (direct oracle).  Every transformed query is also compared with the executable
//! specification (`run_sem`, kind "oracle") so that it goes through the C01-style comparison too.
//!
//! `--n N` = number of checked applications wanted PER transformation; base cases are generated
//! until every transformation reached N (or the attempt cap is hit).
//!
//! transformation      relation on row multisets (new vs base)
//! add_filter          new  <= base       (filter added to a property that is not inside a @fold)
//! raise_depth         base <= new        (@recurse(depth: d) -> d+1, edge not inside a @fold)
//! make_optional       base <= new        (plain edge -> @optional, edge not inside a @fold)
//! param_edge          new  == base       (`e(lo: k)` plain -> `e(lo: null)` + `id @filter(op: ">=", ["$p"])`, p = k)
//! eq_one_of           new  == base       (`= $v` -> `one_of $m`, m = [v]; anywhere, also fold-count filters)
//! negation            pos <= q0, neg <= q0, q0 <= pos + neg; pos + neg == q0 when the query has no @optional
//!                     (q0 = filter removed, pos = the filter, neg = its negated form; filter not inside a @fold)
//! rename_outputs      new  == base with keys renamed by a bijection
//! rename_tags         new  == base
//! swap_properties     new  == base       (two adjacent sibling property lines)
//! swap_edges          new  == base       (two adjacent sibling edge blocks; run-time check only).  For siblings INSIDE
//!                     a @fold the folded output lists are enumerated in another order (first edge varies slowest), so
//!                     there the comparison is modulo the order of list elements.
#[path = "../coq.rs"]
mod coq;
#[path = "../engine.rs"]
mod engine;
#[path = "../irprint.rs"]
mod irprint;
#[path = "../out.rs"]
mod out;
#[path = "../qgen.rs"]
mod qgen;
#[path = "../rng.rs"]
mod rng;
#[path = "../show.rs"]
mod show;
#[path = "../world.rs"]
mod world;

use engine::*;
use out::{Case, Out};
use qgen::{gen_value_for_type, value_pool, VarHint};
use rng::Rng;
use serde_json::{json, Value};
use show::show_fv;
use std::collections::BTreeMap;
use std::panic::{catch_unwind, AssertUnwindSafe};
use std::path::PathBuf;
use std::sync::Arc;
use trustfall_core::frontend::parse;
use trustfall_core::ir::{FieldValue, IndexedQuery};
use trustfall_core::schema::Schema;
use world::*;

// ------------------------------------------------------------------ CLI

pub struct Args {
    pub seed: u64,
    pub n: usize,
    pub out: PathBuf,
    pub rest: Vec<String>,
}

fn parse_args(v: &[String]) -> Args {
    let mut a = Args { seed: 0, n: 100, out: PathBuf::from("."), rest: vec![] };
    let mut i = 0;
    while i < v.len() {
        match v[i].as_str() {
            "--seed" => {
                a.seed = v[i + 1].parse().unwrap();
                i += 2;
            }
            "--n" => {
                a.n = v[i + 1].parse().unwrap();
                i += 2;
            }
            "--out" => {
                a.out = PathBuf::from(&v[i + 1]);
                i += 2;
            }
            _ => {
                a.rest.push(v[i].clone());
                i += 1;
            }
        }
    }
    a
}

// ------------------------------------------------------------------ query text model

#[derive(Clone, Debug, PartialEq)]
enum Kind {
    Query,
    Root,
    Coercion,
    Edge { plain: bool, optional: bool, recurse: bool, fold: bool },
    Prop { name: String, ty: String },
    Close,
    Other,
}

#[derive(Clone, Debug)]
struct Line {
    raw: String,
    kind: Kind,
    depth: usize,          // number of open scopes when the line starts
    in_fold: bool,         // some enclosing scope is a @fold
    opens_ty: String,      // for scope-opening lines: the type of the scope they open
    close: usize,          // for scope-opening lines: index of the matching `}` line
}

fn indent_of(s: &str) -> usize {
    s.len() - s.trim_start().len()
}

fn ident_prefix(s: &str) -> &str {
    let end = s.find(|c: char| !(c.is_ascii_alphanumeric() || c == '_')).unwrap_or(s.len());
    &s[..end]
}

fn parse_text(text: &str) -> Option<Vec<Line>> {
    let raws: Vec<&str> = text.split('\n').collect();
    let mut lines: Vec<Line> = vec![];
    // stack of (line index, is_fold, type)
    let mut stack: Vec<(usize, bool, String)> = vec![];
    for (i, raw) in raws.iter().enumerate() {
        let t = raw.trim();
        let depth = stack.len();
        let in_fold = stack.iter().any(|s| s.1);
        let mut line = Line { raw: raw.to_string(), kind: Kind::Other, depth, in_fold, opens_ty: String::new(), close: 0 };
        if t.is_empty() {
            // trailing empty piece after the last newline
        } else if t == "query {" {
            line.kind = Kind::Query;
            stack.push((i, false, String::new()));
        } else if t == "}" {
            line.kind = Kind::Close;
            let (open, _, _) = stack.pop()?;
            lines[open].close = i;
        } else if let Some(rest) = t.strip_prefix("... on ") {
            line.kind = Kind::Coercion;
            let ty = ident_prefix(rest).to_string();
            line.opens_ty = ty.clone();
            stack.push((i, false, ty));
        } else if t.ends_with('{') {
            let name = ident_prefix(t);
            if stack.len() == 1 {
                line.kind = Kind::Root;
                let en = entry_defs().into_iter().find(|e| e.name == name)?;
                line.opens_ty = en.target.to_string();
                stack.push((i, false, en.target.to_string()));
            } else {
                let cur = stack.last()?.2.clone();
                let ed = type_def(&cur).edges.into_iter().find(|e| e.name == name)?;
                let optional = t.contains("@optional");
                let recurse = t.contains("@recurse");
                let fold = t.contains("@fold");
                line.kind = Kind::Edge { plain: !t.contains('@'), optional, recurse, fold };
                line.opens_ty = ed.target.to_string();
                stack.push((i, fold, ed.target.to_string()));
            }
        } else {
            let name = ident_prefix(t).to_string();
            let cur = stack.last()?.2.clone();
            let ty = if name == "__typename" {
                "String!".to_string()
            } else {
                type_def(&cur).props.into_iter().find(|p| p.name == name)?.ty.to_string()
            };
            line.kind = Kind::Prop { name, ty };
        }
        lines.push(line);
    }
    if !stack.is_empty() {
        return None;
    }
    Some(lines)
}

fn join(lines: &[String]) -> String {
    lines.join("\n")
}

fn raws(lines: &[Line]) -> Vec<String> {
    lines.iter().map(|l| l.raw.clone()).collect()
}

/// all `@filter(...)` directives of a line as (start, end) byte ranges, with their op
fn filters_of(raw: &str) -> Vec<(usize, usize, String)> {
    let mut res = vec![];
    let mut from = 0;
    while let Some(p) = raw[from..].find("@filter(") {
        let start = from + p;
        let end = match raw[start..].find(')') {
            Some(e) => start + e + 1,
            None => break,
        };
        let body = &raw[start..end];
        let op = body.find("op: \"").map(|o| {
            let s = &body[o + 5..];
            s[..s.find('"').unwrap_or(0)].to_string()
        });
        if let Some(op) = op {
            res.push((start, end, op));
        }
        from = end;
    }
    res
}

fn negated(op: &str) -> Option<&'static str> {
    Some(match op {
        "is_null" => "is_not_null",
        "is_not_null" => "is_null",
        "=" => "!=",
        "!=" => "=",
        "contains" => "not_contains",
        "not_contains" => "contains",
        "one_of" => "not_one_of",
        "not_one_of" => "one_of",
        "has_prefix" => "not_has_prefix",
        "not_has_prefix" => "has_prefix",
        "has_suffix" => "not_has_suffix",
        "not_has_suffix" => "has_suffix",
        "has_substring" => "not_has_substring",
        "not_has_substring" => "has_substring",
        "regex" => "not_regex",
        "not_regex" => "regex",
        _ => return None,
    })
}

// ------------------------------------------------------------------ mutations

#[derive(Clone, Debug)]
enum Relation {
    NewSubBase,
    BaseSubNew,
    Equal,
    EqualModuloListOrder,
    Renamed(BTreeMap<String, String>),
}

struct Mutation {
    text: String,
    forced: BTreeMap<String, FieldValue>, // values of new variables fixed by the transformation
    hints: BTreeMap<String, VarHint>,     // generation hints for new variables
    relation: Relation,
    note: String,
    uses_regex: bool,
}

impl Mutation {
    fn new(text: String, relation: Relation, note: &str) -> Self {
        Mutation { text, forced: BTreeMap::new(), hints: BTreeMap::new(), relation, note: note.to_string(), uses_regex: false }
    }
}

fn base_of(ty: &str) -> &str {
    ty.trim_matches(|c| c == '[' || c == ']' || c == '!')
}
fn is_list(ty: &str) -> bool {
    ty.trim_end_matches('!').starts_with('[')
}

fn fresh_var(text: &str, prefix: &str) -> String {
    let mut k = 1;
    loop {
        let name = format!("{prefix}{k}");
        if !text.contains(&format!("${name}\"")) {
            return name;
        }
        k += 1;
    }
}

fn mut_add_filter(rng: &mut Rng, text: &str, lines: &[Line]) -> Option<Mutation> {
    let cands: Vec<usize> = lines
        .iter()
        .enumerate()
        .filter(|(_, l)| matches!(l.kind, Kind::Prop { .. }) && !l.in_fold)
        .map(|(i, _)| i)
        .collect();
    if cands.is_empty() {
        return None;
    }
    let i = *rng.pick(&cands);
    let ty = match &lines[i].kind {
        Kind::Prop { ty, .. } => ty.clone(),
        _ => return None,
    };
    let mut ops: Vec<&str> = vec!["=", "!=", "one_of", "not_one_of", "=", "one_of"];
    if !ty.ends_with('!') {
        ops.extend_from_slice(&["is_null", "is_not_null", "is_not_null"]);
    }
    let orderable = matches!(base_of(&ty), "Int" | "Float" | "String");
    if orderable && !is_list(&ty) {
        ops.extend_from_slice(&["<", "<=", ">", ">=", ">=", "<="]);
    }
    if is_list(&ty) {
        ops.extend_from_slice(&["contains", "not_contains", "contains"]);
    }
    if base_of(&ty) == "String" && !is_list(&ty) {
        ops.extend_from_slice(&["has_prefix", "not_has_prefix", "has_suffix", "has_substring", "not_has_substring", "regex", "not_regex"]);
    }
    let op = *rng.pick(&ops);
    let mut m;
    let mut out = raws(lines);
    if op == "is_null" || op == "is_not_null" {
        out[i] = format!("{} @filter(op: \"{op}\")", out[i]);
        m = Mutation::new(join(&out), Relation::NewSubBase, &format!("line {i}: +{op}"));
    } else {
        let v = fresh_var(text, "m");
        out[i] = format!("{} @filter(op: \"{op}\", value: [\"${v}\"])", out[i]);
        m = Mutation::new(join(&out), Relation::NewSubBase, &format!("line {i}: +{op} ${v}"));
        if op == "regex" || op == "not_regex" {
            m.hints.insert(v, VarHint::Regex);
            m.uses_regex = true;
        }
    }
    Some(m)
}

fn mut_raise_depth(rng: &mut Rng, _text: &str, lines: &[Line]) -> Option<Mutation> {
    let cands: Vec<usize> = lines
        .iter()
        .enumerate()
        .filter(|(_, l)| matches!(l.kind, Kind::Edge { recurse: true, .. }) && !l.in_fold)
        .map(|(i, _)| i)
        .collect();
    if cands.is_empty() {
        return None;
    }
    let i = *rng.pick(&cands);
    let raw = &lines[i].raw;
    let key = "@recurse(depth: ";
    let p = raw.find(key)? + key.len();
    let end = p + raw[p..].find(')')?;
    let d: u32 = raw[p..end].parse().ok()?;
    let mut out = raws(lines);
    out[i] = format!("{}{}{}", &raw[..p], d + 1, &raw[end..]);
    Some(Mutation::new(join(&out), Relation::BaseSubNew, &format!("line {i}: depth {d} -> {}", d + 1)))
}

fn mut_make_optional(rng: &mut Rng, _text: &str, lines: &[Line]) -> Option<Mutation> {
    let cands: Vec<usize> = lines
        .iter()
        .enumerate()
        .filter(|(_, l)| matches!(l.kind, Kind::Edge { plain: true, .. }) && !l.in_fold)
        .map(|(i, _)| i)
        .collect();
    if cands.is_empty() {
        return None;
    }
    let i = *rng.pick(&cands);
    let raw = &lines[i].raw;
    let body = raw.strip_suffix(" {")?;
    let mut out = raws(lines);
    out[i] = format!("{body} @optional {{");
    Some(Mutation::new(join(&out), Relation::BaseSubNew, &format!("line {i}: +@optional")))
}

fn mut_param_edge(rng: &mut Rng, text: &str, lines: &[Line]) -> Option<Mutation> {
    // plain edges (any nesting) with an explicit integer `lo` parameter
    let mut cands: Vec<(usize, usize, usize, i64)> = vec![];
    for (i, l) in lines.iter().enumerate() {
        if !matches!(l.kind, Kind::Edge { plain: true, .. }) {
            continue;
        }
        let raw = &l.raw;
        let (Some(lp), Some(rp)) = (raw.find('('), raw.find(')')) else { continue };
        let mut pos = lp + 1;
        for part in raw[lp + 1..rp].split(", ") {
            if let Some(val) = part.strip_prefix("lo: ") {
                if let Ok(k) = val.parse::<i64>() {
                    cands.push((i, pos + 4, pos + part.len(), k));
                }
            }
            pos += part.len() + 2;
        }
    }
    if cands.is_empty() {
        return None;
    }
    let (i, vs, ve, k) = *rng.pick(&cands);
    let p = fresh_var(text, "p");
    let filter = format!("@filter(op: \">=\", value: [\"${p}\"])");
    let mut out = raws(lines);
    out[i] = format!("{}null{}", &lines[i].raw[..vs], &lines[i].raw[ve..]);
    // the destination scope: inside the coercion block when the scope consists of one
    let mut scope = i;
    if matches!(lines.get(i + 1).map(|l| &l.kind), Some(Kind::Coercion)) {
        scope = i + 1;
    }
    let child_depth = lines[scope].depth + 1;
    let existing = (scope + 1..lines[scope].close)
        .find(|&j| lines[j].depth == child_depth && matches!(&lines[j].kind, Kind::Prop { name, .. } if name == "id"));
    match existing {
        Some(j) => out[j] = format!("{} {filter}", out[j]),
        None => {
            let ind = " ".repeat(indent_of(&lines[scope].raw) + 2);
            out.insert(scope + 1, format!("{ind}id {filter}"));
        }
    }
    let mut m = Mutation::new(join(&out), Relation::Equal, &format!("line {i}: lo: {k} -> null + id >= ${p}"));
    m.forced.insert(p, FieldValue::Int64(k));
    if lines[i].in_fold {
        m.note.push_str(" (inside a fold)");
    }
    Some(m)
}

fn mut_eq_one_of(rng: &mut Rng, text: &str, lines: &[Line], base_args: &BTreeMap<Arc<str>, FieldValue>) -> Option<Mutation> {
    let pat = "@filter(op: \"=\", value: [\"$";
    let mut cands: Vec<(usize, usize)> = vec![];
    for (i, l) in lines.iter().enumerate() {
        let mut from = 0;
        while let Some(p) = l.raw[from..].find(pat) {
            cands.push((i, from + p));
            from += p + pat.len();
        }
    }
    if cands.is_empty() {
        return None;
    }
    let (i, p) = *rng.pick(&cands);
    let raw = &lines[i].raw;
    let vstart = p + pat.len();
    let vend = vstart + raw[vstart..].find('"')?;
    let v = raw[vstart..vend].to_string();
    let close = vend + raw[vend..].find(')')? + 1;
    let val = base_args.get(v.as_str())?.clone();
    let m_name = fresh_var(text, "m");
    let mut out = raws(lines);
    out[i] = format!("{}@filter(op: \"one_of\", value: [\"${m_name}\"]){}", &raw[..p], &raw[close..]);
    let mut m = Mutation::new(join(&out), Relation::Equal, &format!("line {i}: = ${v} -> one_of ${m_name}"));
    m.forced.insert(m_name, FieldValue::List(Arc::from(vec![val])));
    Some(m)
}

/// returns (q0 = filter removed, neg = operator negated); the base query is `pos`
fn mut_negation(rng: &mut Rng, lines: &[Line]) -> Option<(String, String, String)> {
    let mut cands: Vec<(usize, usize, usize, String)> = vec![];
    for (i, l) in lines.iter().enumerate() {
        let ok = match l.kind {
            Kind::Prop { .. } => !l.in_fold,
            Kind::Edge { fold: true, .. } => !l.in_fold,
            _ => false,
        };
        if !ok {
            continue;
        }
        for (s, e, op) in filters_of(&l.raw) {
            if negated(&op).is_some() {
                cands.push((i, s, e, op));
            }
        }
    }
    if cands.is_empty() {
        return None;
    }
    let (i, s, e, op) = rng.pick(&cands).clone();
    let raw = &lines[i].raw;
    let neg_op = negated(&op)?;
    let mut neg = raws(lines);
    neg[i] = format!("{}{}", &raw[..s], raw[s..].replacen(&format!("op: \"{op}\""), &format!("op: \"{neg_op}\""), 1));
    let mut q0 = raws(lines);
    // remove the directive and one adjacent space
    let removed = if e < raw.len() && raw[e..].starts_with(' ') {
        format!("{}{}", &raw[..s], &raw[e + 1..])
    } else {
        format!("{}{}", raw[..s].trim_end(), &raw[e..])
    };
    if matches!(lines[i].kind, Kind::Prop { .. }) && !removed.contains('@') {
        q0.remove(i);
    } else {
        q0[i] = removed;
    }
    Some((join(&q0), join(&neg), format!("line {i}: {op} / {neg_op}")))
}

fn output_names(text: &str) -> Vec<String> {
    let pat = "@output(name: \"";
    let mut res = vec![];
    let mut from = 0;
    while let Some(p) = text[from..].find(pat) {
        let s = from + p + pat.len();
        let e = s + text[s..].find('"').unwrap_or(0);
        let name = text[s..e].to_string();
        if !res.contains(&name) {
            res.push(name);
        }
        from = e;
    }
    res
}

fn mut_rename_outputs(rng: &mut Rng, text: &str) -> Option<Mutation> {
    let names = output_names(text);
    if names.is_empty() {
        return None;
    }
    let mut map = BTreeMap::new();
    let n = names.len();
    if n >= 2 && rng.chance(2, 3) {
        // a permutation of the existing names (changes the key order of every row)
        let shift = 1 + rng.below(n - 1);
        for (i, name) in names.iter().enumerate() {
            map.insert(name.clone(), names[(i + shift) % n].clone());
        }
    } else {
        let prefix = *rng.pick(&["r_", "zz", "A", "o0"]);
        for name in &names {
            map.insert(name.clone(), format!("{prefix}{name}"));
        }
    }
    let mut t = text.to_string();
    for (i, name) in names.iter().enumerate() {
        t = t.replace(&format!("@output(name: \"{name}\")"), &format!("@output(name: \"\u{1}{i}\u{1}\")"));
    }
    for (i, name) in names.iter().enumerate() {
        t = t.replace(&format!("\u{1}{i}\u{1}"), &map[name]);
    }
    Some(Mutation::new(t, Relation::Renamed(map.clone()), &format!("{map:?}")))
}

fn mut_rename_tags(rng: &mut Rng, text: &str) -> Option<Mutation> {
    let pat = "@tag(name: \"";
    let mut names: Vec<String> = vec![];
    let mut from = 0;
    while let Some(p) = text[from..].find(pat) {
        let s = from + p + pat.len();
        let e = s + text[s..].find('"').unwrap_or(0);
        let name = text[s..e].to_string();
        if !names.contains(&name) {
            names.push(name);
        }
        from = e;
    }
    if names.is_empty() {
        return None;
    }
    let n = names.len();
    let mut map = BTreeMap::new();
    if n >= 2 && rng.chance(1, 2) {
        let shift = 1 + rng.below(n - 1);
        for (i, name) in names.iter().enumerate() {
            map.insert(name.clone(), names[(i + shift) % n].clone());
        }
    } else {
        for name in &names {
            map.insert(name.clone(), format!("z_{name}"));
        }
    }
    let mut t = text.to_string();
    for (i, name) in names.iter().enumerate() {
        t = t.replace(&format!("@tag(name: \"{name}\")"), &format!("@tag(name: \"\u{1}{i}\u{1}\")"));
        t = t.replace(&format!("\"%{name}\""), &format!("\"%\u{1}{i}\u{1}\""));
    }
    for (i, name) in names.iter().enumerate() {
        t = t.replace(&format!("\u{1}{i}\u{1}"), &map[name]);
    }
    Some(Mutation::new(t, Relation::Equal, &format!("{map:?}")))
}

fn mut_swap_properties(rng: &mut Rng, lines: &[Line]) -> Option<Mutation> {
    let cands: Vec<usize> = (0..lines.len().saturating_sub(1))
        .filter(|&i| {
            matches!(lines[i].kind, Kind::Prop { .. })
                && matches!(lines[i + 1].kind, Kind::Prop { .. })
                && lines[i].depth == lines[i + 1].depth
        })
        .collect();
    if cands.is_empty() {
        return None;
    }
    let i = *rng.pick(&cands);
    let mut out = raws(lines);
    out.swap(i, i + 1);
    let both_filtered = lines[i].raw.contains("@filter") && lines[i + 1].raw.contains("@filter");
    Some(Mutation::new(join(&out), Relation::Equal, &format!("lines {i},{}{}", i + 1, if both_filtered { " (both filtered)" } else { "" })))
}

fn mut_swap_edges(rng: &mut Rng, lines: &[Line]) -> Option<Mutation> {
    let mut cands: Vec<(usize, usize, usize)> = vec![];
    for (i, l) in lines.iter().enumerate() {
        if !matches!(l.kind, Kind::Edge { .. }) {
            continue;
        }
        let b0 = l.close + 1;
        if b0 < lines.len() && matches!(lines[b0].kind, Kind::Edge { .. }) && lines[b0].depth == l.depth {
            cands.push((i, b0, lines[b0].close));
        }
    }
    if cands.is_empty() {
        return None;
    }
    let (a0, b0, b1) = *rng.pick(&cands);
    let all = raws(lines);
    let mut out: Vec<String> = all[..a0].to_vec();
    out.extend_from_slice(&all[b0..=b1]);
    out.extend_from_slice(&all[a0..b0]);
    out.extend_from_slice(&all[b1 + 1..]);
    let rel = if lines[a0].in_fold { Relation::EqualModuloListOrder } else { Relation::Equal };
    let note = format!("blocks at lines {a0} and {b0}{}", if lines[a0].in_fold { " (siblings inside a fold)" } else { "" });
    Some(Mutation::new(join(&out), rel, &note))
}

// ------------------------------------------------------------------ running

fn compile(schema: &Schema, text: &str) -> Result<Arc<IndexedQuery>, String> {
    match catch_unwind(AssertUnwindSafe(|| parse(schema, text))) {
        Err(_) => Err("frontend-panic".to_string()),
        Ok(Err(e)) => {
            let k = format!("{e:?}");
            Err(k.split(|c: char| c == '(' || c == '{' || c == ' ').next().unwrap_or("?").to_string())
        }
        Ok(Ok(iq)) => Ok(iq),
    }
}

fn build_args(
    rng: &mut Rng,
    iq: &IndexedQuery,
    base: &EngineCase,
    forced: &BTreeMap<String, FieldValue>,
    hints: &BTreeMap<String, VarHint>,
) -> BTreeMap<Arc<str>, FieldValue> {
    let pool = value_pool(&base.dataset);
    iq.ir_query
        .variables
        .iter()
        .map(|(k, t)| {
            let v = if let Some(v) = forced.get(k.as_ref()) {
                v.clone()
            } else if let Some(v) = base.args.get(k) {
                v.clone()
            } else {
                let hint = hints.get(k.as_ref()).cloned().unwrap_or(VarHint::Plain);
                gen_value_for_type(rng, t, &hint, 0, &pool)
            };
            (k.clone(), v)
        })
        .collect()
}

type Multiset = BTreeMap<String, i64>;

fn multiset(rows: &[Row]) -> Multiset {
    let mut m = Multiset::new();
    for r in rows {
        *m.entry(show_row(r)).or_insert(0) += 1;
    }
    m
}

fn renamed_multiset(rows: &[Row], map: &BTreeMap<String, String>) -> Multiset {
    let mut m = Multiset::new();
    for r in rows {
        let r2: Row = r
            .iter()
            .map(|(k, v)| {
                let k2: Arc<str> = match map.get(k.as_ref()) {
                    Some(n) => Arc::from(n.as_str()),
                    None => k.clone(),
                };
                (k2, v.clone())
            })
            .collect();
        *m.entry(show_row(&r2)).or_insert(0) += 1;
    }
    m
}

fn sort_lists(v: &FieldValue) -> FieldValue {
    match v {
        FieldValue::List(l) => {
            let mut items: Vec<FieldValue> = l.iter().map(sort_lists).collect();
            items.sort_by_key(show_fv);
            FieldValue::List(Arc::from(items))
        }
        other => other.clone(),
    }
}

fn multiset_modulo_list_order(rows: &[Row]) -> Multiset {
    let mut m = Multiset::new();
    for r in rows {
        let r2: Row = r.iter().map(|(k, v)| (k.clone(), sort_lists(v))).collect();
        *m.entry(show_row(&r2)).or_insert(0) += 1;
    }
    m
}

fn sub_multiset(a: &Multiset, b: &Multiset) -> bool {
    a.iter().all(|(k, n)| b.get(k).copied().unwrap_or(0) >= *n)
}

fn msum(a: &Multiset, b: &Multiset) -> Multiset {
    let mut m = a.clone();
    for (k, n) in b {
        *m.entry(k.clone()).or_insert(0) += n;
    }
    m
}

fn args_json(a: &BTreeMap<Arc<str>, FieldValue>) -> Value {
    json!(a.iter().map(|(k, v)| (k.to_string(), show_fv(v))).collect::<BTreeMap<_, _>>())
}

fn rows_json(rows: &[Row]) -> Value {
    json!(rows.iter().take(40).map(show_row).collect::<Vec<_>>())
}

struct Derived {
    case: EngineCase,
    rows: Vec<Row>,
}

/// compile + build args + run; Err(reason) when the transformed query cannot be used
fn derive(
    rng: &mut Rng,
    schema: &Schema,
    base: &EngineCase,
    text: &str,
    forced: &BTreeMap<String, FieldValue>,
    hints: &BTreeMap<String, VarHint>,
    uses_regex: bool,
) -> Result<Derived, String> {
    let iq = compile(schema, text).map_err(|k| format!("rejected:{k}"))?;
    let args = build_args(rng, &iq, base, forced, hints);
    let mut features = base.features.clone();
    if uses_regex {
        features.insert("op:regex".to_string());
    }
    let case = EngineCase {
        dataset: base.dataset.clone(),
        query_text: text.to_string(),
        indexed: iq,
        args: Arc::new(args),
        features,
        var_hints: base.var_hints.clone(),
    };
    match run_impl(&case) {
        Outcome::Rows(rows) => Ok(Derived { case, rows }),
        Outcome::ArgError(_) => Err("arg-error".to_string()),
        Outcome::Panic(_) => Err("panic".to_string()),
    }
}

fn add_spec_case(out: &mut Out, name: &str, idx: usize, d: &Derived, note: &str, oracle_only: bool) {
    // the specification comparison is the expensive part of the check (vm_compute per case): every
    // transformed query that returned rows goes through it, and a quarter of the row-less ones
    if oracle_only || (d.rows.is_empty() && idx % 4 != 0) {
        return;
    }
    // very large results cost gigabytes inside vm_compute; the direct oracle above still covers them
    if d.rows.len() > 250 {
        out.count("spec-case-skipped:more-than-250-rows");
        return;
    }
    let mut input = case_input_json(&d.case);
    input["transformation"] = json!(name);
    input["note"] = json!(note);
    let imp = show_outcome(&Outcome::Rows(d.rows.clone()));
    out.add_spec(
        Case {
            input,
            coq: format!("run_sem {}", case_coq_args(&d.case)),
            imp,
            nontrivial: !d.rows.is_empty(),
            key: format!("{name}:{idx}:{}", d.case.query_text),
        },
        engine_class(&d.case),
    );
}

const TRANSFORMS: [&str; 10] = [
    "add_filter", "raise_depth", "make_optional", "param_edge", "eq_one_of", "negation", "rename_outputs",
    "rename_tags", "swap_properties", "swap_edges",
];

fn main() {
    let argv: Vec<String> = std::env::args().collect();
    if argv.len() < 2 || argv[1] != "c23" {
        eprintln!("usage: tfh_c23 c23 [--seed S] [--n N] [--out DIR] [--oracle-only]");
        std::process::exit(2);
    }
    let args = parse_args(&argv[2..]);
    let oracle_only = args.rest.iter().any(|x| x == "--oracle-only");
    std::panic::set_hook(Box::new(|_| {}));
    let mut out = Out::new(&args.out, "From TF Require Import Run.", 40);
    let mut rng = Rng::new(args.seed);
    let schema = world::schema();
    let mut stats = GenStats { generated: 0, frontend_rejected: 0, frontend_panicked: 0, reject_kinds: Default::default() };
    let quota = args.n.max(1);
    let mut done: BTreeMap<&str, usize> = TRANSFORMS.iter().map(|t| (*t, 0usize)).collect();
    let mut strict: BTreeMap<&str, usize> = BTreeMap::new();
    let cap = 2000 * quota + 2000;
    let mut base_cases = 0usize;
    let mut idx = 0usize;
    while base_cases < cap && done.values().any(|&d| d < quota) {
        base_cases += 1;
        let base = gen_case(&mut rng, &schema, &mut stats, 0);
        let base_rows = match run_impl(&base) {
            Outcome::Rows(r) => r,
            Outcome::ArgError(_) => {
                out.count("base:arg-error");
                continue;
            }
            Outcome::Panic(_) => {
                out.count("base:panic");
                continue;
            }
        };
        // queries without rows make most relations trivially true: keep only a fifth of them
        if base_rows.is_empty() && !rng.chance(1, 5) {
            out.count("base:no-rows-dropped");
            continue;
        }
        out.count(if base_rows.is_empty() { "base:no-rows-kept" } else { "base:with-rows" });
        let Some(lines) = parse_text(&base.query_text) else {
            out.count("base:unparsed-text");
            continue;
        };
        let base_ms = multiset(&base_rows);
        let has_optional = base.query_text.contains("@optional");
        for name in TRANSFORMS {
            if done[name] >= quota {
                continue;
            }
            let mut r2 = rng.fork();
            idx += 1;
            if name == "negation" {
                let Some((q0_text, neg_text, note)) = mut_negation(&mut r2, &lines) else { continue };
                out.count("applied:negation");
                let none = BTreeMap::new();
                let hints = BTreeMap::new();
                let q0 = match derive(&mut r2, &schema, &base, &q0_text, &none, &hints, false) {
                    Ok(d) => d,
                    Err(why) => {
                        out.count(&format!("skip:negation:q0-{why}"));
                        continue;
                    }
                };
                let neg = match derive(&mut r2, &schema, &base, &neg_text, &none, &hints, false) {
                    Ok(d) => d,
                    Err(why) => {
                        out.count(&format!("skip:negation:neg-{why}"));
                        continue;
                    }
                };
                // the filter's variable must keep its value in all three queries
                let same_args = neg.case.args.iter().all(|(k, v)| base.args.get(k) == Some(v))
                    && q0.case.args.iter().all(|(k, v)| base.args.get(k) == Some(v));
                if !same_args {
                    out.count("skip:negation:args-changed");
                    continue;
                }
                let (m0, mneg) = (multiset(&q0.rows), multiset(&neg.rows));
                let both = msum(&base_ms, &mneg);
                let mut bad: Option<&str> = None;
                if !sub_multiset(&base_ms, &m0) {
                    bad = Some("rows of the filtered query are not rows of the unfiltered query");
                } else if !sub_multiset(&mneg, &m0) {
                    bad = Some("rows of the negated query are not rows of the unfiltered query");
                } else if !sub_multiset(&m0, &both) {
                    bad = Some("a row of the unfiltered query passes neither the filter nor its negation");
                } else if !has_optional && both != m0 {
                    bad = Some("filter and negation do not partition the rows (no @optional in the query)");
                }
                if let Some(what) = bad {
                    out.oracle_fail(
                        &format!("negation: {what}"),
                        json!({"transformation": "negation", "note": note, "query_filter": base.query_text,
                               "query_negated": neg_text, "query_unfiltered": q0_text,
                               "args": args_json(&base.args), "dataset": base.dataset.to_json()}),
                        json!({"rows_filter": rows_json(&base_rows), "rows_negated": rows_json(&neg.rows),
                               "rows_unfiltered": rows_json(&q0.rows)}),
                    );
                }
                *done.get_mut(name).unwrap() += 1;
                out.count("checked:negation");
                out.count(if has_optional { "negation:with-optional(inclusions)" } else { "negation:exact-partition" });
                if !base_rows.is_empty() && !neg.rows.is_empty() {
                    *strict.entry(name).or_insert(0) += 1;
                }
                add_spec_case(&mut out, "negation:neg", idx, &neg, &note, oracle_only);
                add_spec_case(&mut out, "negation:q0", idx, &q0, &note, oracle_only);
                continue;
            }
            let m = match name {
                "add_filter" => mut_add_filter(&mut r2, &base.query_text, &lines),
                "raise_depth" => mut_raise_depth(&mut r2, &base.query_text, &lines),
                "make_optional" => mut_make_optional(&mut r2, &base.query_text, &lines),
                "param_edge" => mut_param_edge(&mut r2, &base.query_text, &lines),
                "eq_one_of" => mut_eq_one_of(&mut r2, &base.query_text, &lines, &base.args),
                "rename_outputs" => mut_rename_outputs(&mut r2, &base.query_text),
                "rename_tags" => mut_rename_tags(&mut r2, &base.query_text),
                "swap_properties" => mut_swap_properties(&mut r2, &lines),
                "swap_edges" => mut_swap_edges(&mut r2, &lines),
                _ => None,
            };
            let Some(m) = m else { continue };
            out.count(&format!("applied:{name}"));
            let d = match derive(&mut r2, &schema, &base, &m.text, &m.forced, &m.hints, m.uses_regex) {
                Ok(d) => d,
                Err(why) => {
                    out.count(&format!("skip:{name}:{why}"));
                    continue;
                }
            };
            // variables shared with the base query must keep their values
            if !d.case.args.iter().all(|(k, v)| m.forced.contains_key(k.as_ref()) || base.args.get(k).map_or(true, |b| b == v)) {
                out.count(&format!("skip:{name}:args-changed"));
                continue;
            }
            let new_ms = multiset(&d.rows);
            let (ok, what, is_strict) = match &m.relation {
                Relation::NewSubBase => (sub_multiset(&new_ms, &base_ms), "the transformed query has a row the original does not have", new_ms != base_ms && !d.rows.is_empty()),
                Relation::BaseSubNew => (sub_multiset(&base_ms, &new_ms), "the transformed query lost a row of the original", new_ms != base_ms),
                Relation::Equal => (new_ms == base_ms, "the row multisets differ", !base_rows.is_empty()),
                Relation::EqualModuloListOrder => (
                    multiset_modulo_list_order(&d.rows) == multiset_modulo_list_order(&base_rows),
                    "the row multisets differ even modulo the order of list elements",
                    !base_rows.is_empty(),
                ),
                Relation::Renamed(map) => (renamed_multiset(&base_rows, map) == new_ms, "the rows are not the original rows with renamed keys", !base_rows.is_empty()),
            };
            if !ok {
                out.oracle_fail(
                    &format!("{name}: {what}"),
                    json!({"transformation": name, "note": m.note, "query_original": base.query_text, "query_transformed": m.text,
                           "args_original": args_json(&base.args), "args_transformed": args_json(&d.case.args),
                           "dataset": base.dataset.to_json()}),
                    json!({"rows_original": rows_json(&base_rows), "rows_transformed": rows_json(&d.rows)}),
                );
            }
            *done.get_mut(name).unwrap() += 1;
            out.count(&format!("checked:{name}"));
            if is_strict {
                *strict.entry(name).or_insert(0) += 1;
            }
            if m.note.contains("(inside a fold)") {
                out.count("param_edge:inside-fold");
            }
            if m.note.contains("(siblings inside a fold)") {
                out.count(if new_ms == base_ms { "swap_edges:inside-fold:identical" } else { "swap_edges:inside-fold:lists-reordered" });
            }
            if m.note.contains("(both filtered)") {
                out.count("swap_properties:both-filtered");
            }
            add_spec_case(&mut out, name, idx, &d, &m.note, oracle_only);
        }
    }
    for (k, v) in &strict {
        out.count_n(&format!("informative:{k}"), *v as u64);
    }
    for (k, v) in &done {
        if *v < quota {
            out.count_n(&format!("quota-missed:{k}"), (quota - *v) as u64);
        }
    }
    out.count_n("base-cases", base_cases as u64);
    out.count_n("gen:attempts", stats.generated);
    out.count_n("gen:frontend-rejected", stats.frontend_rejected);
    out.count_n("gen:frontend-panicked", stats.frontend_panicked);
    out.finish();
}
