//! C26: generated adapter stubs compile for every valid schema (PARTIAL: identifier level in Coq,
//! rustc as the oracle here).
//!
//! Tie: `trustfall_stubgen::generate_rust_stub` (public API) is run on generated valid schemas; the
//! identifiers it emitted are scanned out of the generated files and compared with the model's
//! (`TF.Names`) prediction for the same type / field / parameter names.  A panic of the generator
//! is rendered `PANIC` on both sides.
//! Oracle (1), every schema: the generator must produce a stub, and the identifiers READ FROM THE
//! FILES must satisfy the identifier-level necessary conditions of compilation.
//! Oracle (2), a few schemas per run: the stub is put into a fresh crate and compiled with
//! `cargo test --no-run --offline` against /repo/trustfall.
#[path = "../coq.rs"]
mod coq;
#[path = "../out.rs"]
mod out;
#[path = "../rng.rs"]
mod rng;

use coq::{clist, cstr};
use out::{Case, Out};
use regex::Regex;
use rng::Rng;
use serde_json::{json, Value};
use std::collections::{BTreeMap, BTreeSet};
use std::panic::{catch_unwind, AssertUnwindSafe};
use std::path::{Path, PathBuf};
use std::process::Command;

// ------------------------------------------------------------------ schemas

#[derive(Clone, Debug)]
struct Param {
    name: String,
    ty: String,
}
#[derive(Clone, Debug)]
struct Edge {
    name: String,
    target: String,
    wrap: usize,
    params: Vec<Param>,
}
#[derive(Clone, Debug)]
struct Prop {
    name: String,
    ty: String,
}
#[derive(Clone, Debug)]
struct VType {
    name: String,
    interface: bool,
    implements: Vec<String>,
    props: Vec<Prop>,
    edges: Vec<Edge>,
}
#[derive(Clone, Debug)]
struct Sch {
    types: Vec<VType>,
    entry: Vec<Edge>,
}

const ROOT: &str = "RootSchemaQuery";

const HEADER: &str = r#"schema {
  query: RootSchemaQuery
}
directive @filter(op: String!, value: [String!]) repeatable on FIELD | INLINE_FRAGMENT
directive @tag(name: String) repeatable on FIELD
directive @output(name: String) repeatable on FIELD
directive @optional on FIELD
directive @recurse(depth: Int!) on FIELD
directive @fold on FIELD
directive @transform(op: String!) repeatable on FIELD
"#;

fn wrap_ty(t: &str, w: usize) -> String {
    match w % 6 {
        0 => t.to_string(),
        1 => format!("{t}!"),
        2 => format!("[{t}]"),
        3 => format!("[{t}!]!"),
        4 => format!("[{t}!]"),
        _ => format!("[{t}]!"),
    }
}

fn edge_text(e: &Edge) -> String {
    let ps = if e.params.is_empty() {
        String::new()
    } else {
        let v: Vec<String> = e.params.iter().map(|p| format!("{}: {}", p.name, p.ty)).collect();
        format!("({})", v.join(", "))
    };
    format!("  {}{}: {}\n", e.name, ps, wrap_ty(&e.target, e.wrap))
}

fn schema_text(s: &Sch) -> String {
    let mut t = String::from(HEADER);
    t.push_str(&format!("\ntype {ROOT} {{\n"));
    for e in &s.entry {
        t.push_str(&edge_text(e));
    }
    t.push_str("}\n");
    for v in &s.types {
        let kw = if v.interface { "interface" } else { "type" };
        let imp = if v.implements.is_empty() { String::new() } else { format!(" implements {}", v.implements.join(" & ")) };
        t.push_str(&format!("\n{kw} {}{imp} {{\n", v.name));
        for p in &v.props {
            t.push_str(&format!("  {}: {}\n", p.name, p.ty));
        }
        for e in &v.edges {
            t.push_str(&edge_text(e));
        }
        t.push_str("}\n");
    }
    t
}

// name pools ------------------------------------------------------------------------------------

const CASE_NAMES: &[&str] = &[
    "ab", "aB", "Ab", "AB", "a_b", "A_B", "a__b", "_ab", "ab_", "a1", "a_1", "A1", "aBc", "ABc", "abC", "a_B", "A_b",
    "aBC", "ab__", "_aB", "a1B", "Ab_",
];
/// keywords the generator escapes (or that need no escaping), and their case variants
const KEYWORDS: &[&str] = &[
    "type", "match", "fn", "self", "Self", "crate", "super", "async", "dyn", "mod", "use", "impl", "loop", "where",
    "union", "try", "gen", "static", "Type", "type_", "Match", "await", "move", "ref", "true", "false", "Crate",
    "Super", "macro_rules", "raw", "Fn", "selfType", "as", "in", "if",
];
/// reserved words missing from escaped_rust_name's list
const KEYWORDS_UNESCAPED: &[&str] = &["box", "yield", "abstract", "macro", "priv", "do", "final", "become", "override", "typeof", "unsized", "virtual"];
const SAFE_PARAMS: &[&str] = &["gen", "union", "raw", "auto", "default", "macro_rules", "vertex", "edge_name", "V", "Vertex", "aB", "A_B", "a__b", "_ab", "Type"];
const PLAIN_TYPES: &[&str] = &["User", "Post", "Comment", "Story", "Item", "Account", "Tag", "Repo"];
const PLAIN_FIELDS: &[&str] = &["id", "name", "title", "score", "url", "createdAt", "text", "author", "parent", "children", "owner", "link"];
const PLAIN_PARAMS: &[&str] = &["max", "min", "first", "after", "query", "ids"];
/// names that collide with identifiers the stub itself introduces around the generated ones
const FIXED_NAMES: &[&str] = &["contexts", "parameters", "resolve_info", "_resolve_info", "edge_name", "vertex", "resolve_neighbors_with", "resolveNeighborsWith", "trustfall", "Vertex", "vertex_", "Adapter", "_", "_1", "std", "V"];
const SCALARS: &[&str] = &["Int", "String", "Float", "Boolean", "Int!", "String!", "Float!", "Boolean!", "[Int]", "[String!]", "[Int!]!", "[[Float]]", "[Boolean]!"];

#[derive(Clone, Copy, Debug, PartialEq)]
enum Mode {
    Plain,
    Keywords,
    Case,
    Mixed,
}

fn pick_name(rng: &mut Rng, mode: Mode, plain: &[&str]) -> String {
    let is_param = std::ptr::eq(plain.as_ptr(), PLAIN_PARAMS.as_ptr());
    let pool: &[&str] = match mode {
        Mode::Plain => plain,
        // parameters are never escaped: keep most of them harmless so that the rest of the
        // schema gets exercised
        Mode::Keywords | Mode::Case if is_param => match rng.below(12) {
            0 => KEYWORDS,
            1 => FIXED_NAMES,
            2 | 3 | 4 | 5 => SAFE_PARAMS,
            _ => plain,
        },
        Mode::Keywords => match rng.below(16) {
            0 => KEYWORDS_UNESCAPED,
            1 | 2 | 3 | 4 => plain,
            _ => KEYWORDS,
        },
        Mode::Case => {
            if rng.chance(5, 6) { CASE_NAMES } else { plain }
        }
        Mode::Mixed => match rng.below(16) {
            0 | 1 | 2 | 3 | 4 | 5 => CASE_NAMES,
            6 | 7 | 8 | 9 => KEYWORDS,
            10 => KEYWORDS_UNESCAPED,
            11 | 12 => FIXED_NAMES,
            _ => plain,
        },
    };
    rng.pick(pool).to_string()
}

fn gen_params(rng: &mut Rng, mode: Mode) -> Vec<Param> {
    let n = match rng.below(5) {
        0 | 1 | 2 => 0,
        3 => 1,
        _ => 2,
    };
    let mut ps: Vec<Param> = vec![];
    for _ in 0..n {
        let name = pick_name(rng, mode, PLAIN_PARAMS);
        if ps.iter().any(|p| p.name == name) {
            continue;
        }
        ps.push(Param { name, ty: rng.pick(SCALARS).to_string() });
    }
    ps
}

fn gen_schema(rng: &mut Rng, mode: Mode) -> Sch {
    let k = 1 + rng.below(5);
    let mut names: Vec<String> = vec![];
    while names.len() < k {
        let n = pick_name(rng, mode, PLAIN_TYPES);
        if n == ROOT || names.contains(&n) || SCALARS.iter().any(|s| s.trim_matches(|c| c == '[' || c == ']' || c == '!') == n) {
            continue;
        }
        names.push(n);
        if names.len() < k && rng.chance(1, 40) {
            break;
        }
    }
    let mut types: Vec<VType> = vec![];
    for (i, name) in names.iter().enumerate() {
        let interface = rng.chance(1, 4);
        // implement some earlier interfaces (with their own interfaces: the closure)
        let mut implements: Vec<String> = vec![];
        for j in 0..i {
            if types[j].interface && rng.chance(1, 2) {
                for x in types[j].implements.clone().into_iter().chain(std::iter::once(types[j].name.clone())) {
                    if !implements.contains(&x) {
                        implements.push(x);
                    }
                }
            }
        }
        let mut props: Vec<Prop> = vec![];
        let mut edges: Vec<Edge> = vec![];
        for iname in &implements {
            let it = types.iter().find(|t| &t.name == iname).unwrap();
            for p in &it.props {
                if !props.iter().any(|q| q.name == p.name) {
                    props.push(p.clone());
                }
            }
            for e in &it.edges {
                if !edges.iter().any(|q| q.name == e.name) {
                    edges.push(e.clone());
                }
            }
        }
        let np = rng.below(4);
        let ne = rng.below(4);
        for _ in 0..np {
            let n = pick_name(rng, mode, PLAIN_FIELDS);
            if props.iter().any(|q| q.name == n) || edges.iter().any(|q| q.name == n) {
                continue;
            }
            props.push(Prop { name: n, ty: rng.pick(SCALARS).to_string() });
        }
        for _ in 0..ne {
            let n = pick_name(rng, mode, PLAIN_FIELDS);
            if props.iter().any(|q| q.name == n) || edges.iter().any(|q| q.name == n) {
                continue;
            }
            let target = rng.pick(&names).clone();
            edges.push(Edge { name: n, target, wrap: rng.below(6), params: gen_params(rng, mode) });
        }
        if props.is_empty() && edges.is_empty() {
            props.push(Prop { name: "id".into(), ty: "Int".into() });
        }
        types.push(VType { name: name.clone(), interface, implements, props, edges });
    }
    let mut entry: Vec<Edge> = vec![];
    let ne = 1 + rng.below(3);
    for _ in 0..ne {
        let n = pick_name(rng, mode, PLAIN_TYPES);
        if entry.iter().any(|q| q.name == n) {
            continue;
        }
        let target = rng.pick(&names).clone();
        entry.push(Edge { name: n, target, wrap: rng.below(6), params: gen_params(rng, mode) });
    }
    Sch { types, entry }
}

// ------------------------------------------------------------------ model-side view of a schema
// Everything the generator reads, in the order its (sorted) query rows produce it.

#[derive(Clone, Debug, PartialEq)]
struct MType {
    name: String,
    props: Vec<String>,
    edges: Vec<(String, Vec<String>)>,
}
#[derive(Clone, Debug, PartialEq)]
struct MSchema {
    types: Vec<MType>,
    entry: Vec<(String, Vec<String>)>,
}

fn to_model(s: &Sch) -> MSchema {
    let mut types: Vec<MType> = s
        .types
        .iter()
        .map(|t| {
            // properties keep the declaration order in the guards' row, but properties.rs does not
            // render them as identifiers; edges.rs sorts (edge name, params)
            let props: Vec<String> = t.props.iter().map(|p| p.name.clone()).collect();
            let mut edges: Vec<(String, Vec<String>)> =
                t.edges.iter().map(|e| (e.name.clone(), e.params.iter().map(|p| p.name.clone()).collect())).collect();
            edges.sort();
            MType { name: t.name.clone(), props, edges }
        })
        .collect();
    types.sort_by(|a, b| a.name.cmp(&b.name));
    let mut entry: Vec<(String, Vec<String>)> =
        s.entry.iter().map(|e| (e.name.clone(), e.params.iter().map(|p| p.name.clone()).collect())).collect();
    entry.sort();
    MSchema { types, entry }
}

fn c_named(name: &str, params: &[String]) -> String {
    let ps: Vec<String> = params.iter().map(|p| cstr(p)).collect();
    format!("({}, {})", cstr(name), clist(&ps))
}

fn c_schema(m: &MSchema) -> String {
    let ts: Vec<String> = m
        .types
        .iter()
        .map(|t| {
            let ps: Vec<String> = t.props.iter().map(|p| cstr(p)).collect();
            let es: Vec<String> = t.edges.iter().map(|(n, p)| c_named(n, p)).collect();
            format!("(mkVT {} {} {})", cstr(&t.name), clist(&ps), clist(&es))
        })
        .collect();
    let es: Vec<String> = m.entry.iter().map(|(n, p)| c_named(n, p)).collect();
    format!("(mkSchema {} {})", clist(&ts), clist(&es))
}

// ------------------------------------------------------------------ running the generator

/// identifiers read back from the generated files
#[derive(Clone, Debug, Default, PartialEq)]
struct Idents {
    variants: Vec<String>,
    prop_fns: Vec<String>,
    edge_fns: Vec<String>,
    /// `super::edges::<fn>(` references in adapter_impl.rs
    edge_refs: Vec<String>,
    /// (module name, [(edge fn, params, conversion called)])
    mods: Vec<(String, Vec<(String, Vec<String>, String)>)>,
    entry_fns: Vec<(String, Vec<String>)>,
}

fn split_params(s: &str) -> Vec<String> {
    let mut out = vec![];
    let mut depth = 0i32;
    let mut cur = String::new();
    for c in s.chars() {
        match c {
            '<' | '[' => { depth += 1; cur.push(c); }
            '>' | ']' => { depth -= 1; cur.push(c); }
            ',' if depth == 0 => { out.push(cur.clone()); cur.clear(); }
            _ => cur.push(c),
        }
    }
    out.push(cur);
    out.iter()
        .map(|p| p.trim())
        .filter(|p| !p.is_empty())
        .map(|p| p.split(':').next().unwrap().trim().to_string())
        .collect()
}

fn fn_re() -> Regex {
    Regex::new(r"fn\s+([A-Za-z0-9_#]+)\s*<[^()]*?>\s*\(([^()]*)\)\s*->").unwrap()
}

fn scan_stub(dir: &Path) -> Idents {
    let rd = |f: &str| std::fs::read_to_string(dir.join("adapter").join(f)).unwrap_or_default();
    let mut id = Idents::default();
    let vre = Regex::new(r"(?m)^\s+([A-Za-z0-9_#]+)\(\(\)\),\s*$").unwrap();
    for c in vre.captures_iter(&rd("vertex.rs")) {
        id.variants.push(c[1].to_string());
    }
    let fre = fn_re();
    for c in fre.captures_iter(&rd("properties.rs")) {
        id.prop_fns.push(c[1].to_string());
    }
    for c in fre.captures_iter(&rd("entrypoints.rs")) {
        let mut ps = split_params(&c[2]);
        ps.pop(); // the fixed trailing `_resolve_info`
        id.entry_fns.push((c[1].to_string(), ps));
    }
    // edges.rs: top-level fns and `mod x { ... }` blocks (a block ends at a line that is exactly `}`)
    let edges = rd("edges.rs");
    let conv = Regex::new(r#"\.\s*(as_[A-Za-z0-9_]*)\(\)\s*\.expect\(\s*"conversion failed"#).unwrap();
    let modre = Regex::new(r"(?m)^mod ([A-Za-z0-9_#]+) \{$").unwrap();
    let mut pos = 0usize;
    let mut top = String::new();
    while let Some(m) = modre.find_at(&edges, pos) {
        top.push_str(&edges[pos..m.start()]);
        let name = modre.captures(&edges[m.start()..]).unwrap()[1].to_string();
        let end = edges[m.end()..].find("\n}\n").map(|e| m.end() + e + 3).unwrap_or(edges.len());
        let body = &edges[m.end()..end];
        let mut fns = vec![];
        let caps: Vec<_> = fre.captures_iter(body).collect();
        for (i, c) in caps.iter().enumerate() {
            let mut ps = split_params(&c[2]);
            ps.pop(); // `_resolve_info`
            if !ps.is_empty() {
                ps.remove(0); // `contexts`
            }
            let from = c.get(0).unwrap().end();
            let to = if i + 1 < caps.len() { caps[i + 1].get(0).unwrap().start() } else { body.len() };
            let cv = conv.captures(&body[from..to]).map(|x| x[1].to_string()).unwrap_or_else(|| "?".into());
            fns.push((c[1].to_string(), ps, cv));
        }
        id.mods.push((name, fns));
        pos = end;
    }
    top.push_str(&edges[pos.min(edges.len())..]);
    for c in fre.captures_iter(&top) {
        id.edge_fns.push(c[1].to_string());
    }
    let rre = Regex::new(r"super::edges::([A-Za-z0-9_#]+)\s*\(").unwrap();
    for c in rre.captures_iter(&rd("adapter_impl.rs")) {
        id.edge_refs.push(c[1].to_string());
    }
    id
}

fn show_named(n: &str, ps: &[String]) -> String {
    format!("{}({})", n, ps.join(","))
}

/// canonical rendering; mirrors `show_stub` in Names.v
fn show_idents(id: &Idents) -> String {
    let mods: Vec<String> = id
        .mods
        .iter()
        .map(|(m, fns)| {
            let f: Vec<String> = fns.iter().map(|(n, ps, cv)| format!("{}@{}", show_named(n, ps), cv)).collect();
            format!("{}{{{}}}", m, f.join(";"))
        })
        .collect();
    let eps: Vec<String> = id.entry_fns.iter().map(|(n, ps)| show_named(n, ps)).collect();
    format!(
        "V[{}]P[{}]E[{}]R[{}]M[{}]S[{}]",
        id.variants.join(","),
        id.prop_fns.join(","),
        id.edge_fns.join(","),
        id.edge_refs.join(","),
        mods.join(","),
        eps.join(",")
    )
}

enum GenResult {
    Ok(Idents),
    Panic(String),
    Err(String),
}

fn run_generator(text: &str, src_dir: &Path) -> GenResult {
    let msg = std::sync::Arc::new(std::sync::Mutex::new(String::new()));
    let r = catch_unwind(AssertUnwindSafe(|| trustfall_stubgen::generate_rust_stub(text, src_dir)));
    match r {
        Ok(Ok(())) => GenResult::Ok(scan_stub(src_dir)),
        Ok(Err(e)) => GenResult::Err(format!("{e:#}")),
        Err(p) => {
            let s = if let Some(s) = p.downcast_ref::<String>() {
                s.clone()
            } else if let Some(s) = p.downcast_ref::<&str>() {
                s.to_string()
            } else {
                "?".to_string()
            };
            let _ = msg;
            GenResult::Panic(s)
        }
    }
}

// ------------------------------------------------------------------ compile oracle

const TARGET_C26: &str = "/verif/.cache/target_c26";
const CRATE_NAME: &str = "c26stub";

fn scratch_root() -> PathBuf {
    PathBuf::from(format!("/tmp/tfh_c26_{}", std::process::id()))
}

/// generate into <crate>/src, returns the generator's result (crate dir is left in place)
fn make_crate(text: &str, crate_dir: &Path) -> GenResult {
    let _ = std::fs::remove_dir_all(crate_dir);
    std::fs::create_dir_all(crate_dir.join("src")).unwrap();
    std::fs::write(
        crate_dir.join("Cargo.toml"),
        format!(
            "[package]\nname = \"{CRATE_NAME}\"\npublish = false\nversion = \"0.1.0\"\nedition = \"2021\"\n\n[dependencies]\ntrustfall = {{ path = '/repo/trustfall' }}\n\n[workspace]\n"
        ),
    )
    .unwrap();
    let _ = std::fs::copy("/repo/Cargo.lock", crate_dir.join("Cargo.lock"));
    std::fs::write(crate_dir.join("src").join("lib.rs"), "mod adapter;\n").unwrap();
    run_generator(text, &crate_dir.join("src"))
}

/// (success, first lines of the compiler's error output)
fn compile_crate(crate_dir: &Path) -> (bool, String, f64) {
    let t0 = std::time::Instant::now();
    let out = Command::new("cargo")
        .current_dir(crate_dir)
        .args(["test", "--no-run", "--offline", "--quiet"])
        .env("CARGO_TARGET_DIR", TARGET_C26)
        .env("CARGO_NET_OFFLINE", "true")
        .env("CARGO_TERM_COLOR", "never")
        .env_remove("RUSTFLAGS")
        .env_remove("CARGO_ENCODED_RUSTFLAGS")
        .env_remove("CARGO_BUILD_RUSTFLAGS")
        .output();
    let dt = t0.elapsed().as_secs_f64();
    // drop this crate's artifacts from the shared target dir (the dependencies stay cached)
    for sub in ["debug/deps", "debug/.fingerprint", "debug/incremental", "debug"] {
        if let Ok(rd) = std::fs::read_dir(Path::new(TARGET_C26).join(sub)) {
            for e in rd.flatten() {
                let n = e.file_name().to_string_lossy().to_string();
                if n.starts_with(&format!("{CRATE_NAME}-")) || n.starts_with(&format!("lib{CRATE_NAME}-")) || n.starts_with(&format!("lib{CRATE_NAME}.")) {
                    let p = e.path();
                    if p.is_dir() {
                        let _ = std::fs::remove_dir_all(p);
                    } else {
                        let _ = std::fs::remove_file(p);
                    }
                }
            }
        }
    }
    match out {
        Ok(o) => {
            let err = String::from_utf8_lossy(&o.stderr).to_string();
            // keep only the `error` paragraphs (paragraphs are separated by blank lines)
            let mut keep: Vec<&str> = vec![];
            for para in err.split("\n\n") {
                if para.trim_start().starts_with("error") {
                    keep.extend(para.lines());
                    keep.push("");
                }
            }
            if keep.is_empty() && !o.status.success() {
                keep = err.lines().collect();
            }
            let first: Vec<&str> = keep.into_iter().take(40).collect();
            (o.status.success(), first.join("\n"), dt)
        }
        Err(e) => (false, format!("failed to run cargo: {e}"), dt),
    }
}

fn error_codes(text: &str) -> Vec<String> {
    let re = Regex::new(r"error\[(E\d+)\]").unwrap();
    let mut v: BTreeSet<String> = BTreeSet::new();
    for c in re.captures_iter(text) {
        v.insert(c[1].to_string());
    }
    v.into_iter().collect()
}

// ------------------------------------------------------------------ Rust mirrors of Names.v
// (tied to the Coq definitions by the "mirror" cases; used to classify inputs at run time)

fn snake_with(value: &str, derive: bool) -> String {
    let mut result = String::new();
    let mut last = '_';
    for c in value.chars() {
        if c.is_ascii_uppercase() {
            if last != '_' && (derive || !last.is_ascii_uppercase()) {
                result.push('_');
            }
            result.push(c.to_ascii_lowercase());
        } else {
            result.push(c);
        }
        last = c;
    }
    result
}
fn m_snake(v: &str) -> String {
    snake_with(v, false)
}
fn m_dsnake(v: &str) -> String {
    snake_with(v, true)
}
const ESCAPED: &[&str] = &[
    "as", "break", "const", "continue", "crate", "else", "enum", "extern", "false", "fn", "for", "if", "impl", "in",
    "let", "loop", "match", "mod", "move", "mut", "pub", "ref", "return", "self", "Self", "static", "struct", "super",
    "trait", "true", "type", "unsafe", "use", "where", "while", "async", "await", "dyn", "try", "macro_rules", "union",
    "'static",
];
const RESERVED: &[&str] = &[
    "_", "abstract", "as", "async", "await", "become", "box", "break", "const", "continue", "crate", "do", "dyn",
    "else", "enum", "extern", "false", "final", "fn", "for", "if", "impl", "in", "let", "loop", "macro", "match", "mod",
    "move", "mut", "override", "priv", "pub", "ref", "return", "Self", "self", "static", "struct", "super", "trait",
    "true", "try", "type", "typeof", "unsafe", "unsized", "use", "virtual", "where", "while", "yield",
];
const EDGE_FIXED: &[&str] = &["contexts", "resolve_neighbors_with"];
const CAPTURED: &[&str] = &["_resolve_info", "resolve_info", "None", "Some", "Ok", "Err"];
fn m_escaped(n: &str) -> String {
    if ESCAPED.contains(&n) { format!("{n}_") } else { n.to_string() }
}
fn m_reserved(n: &str) -> bool {
    RESERVED.contains(&n)
}
fn m_variant(t: &str) -> String {
    let mut cs = t.chars();
    let v = match cs.next() {
        Some(c) => format!("{}{}", c.to_ascii_uppercase(), cs.collect::<String>()),
        None => String::new(),
    };
    m_escaped(&v)
}
fn m_mod(t: &str) -> String {
    m_escaped(&m_snake(t))
}
fn any_pair(l: &[String], p: impl Fn(&str, &str) -> bool) -> bool {
    l.iter().any(|a| l.iter().any(|b| a != b && p(a, b)))
}
fn removelast(ps: &[String]) -> &[String] {
    if ps.is_empty() { ps } else { &ps[..ps.len() - 1] }
}

/// mirrors `known_classes` (same order)
fn classes(m: &MSchema) -> Vec<&'static str> {
    let tn: Vec<String> = m.types.iter().map(|t| t.name.clone()).collect();
    let mut out = vec![];
    // guards
    let uniq = |l: Vec<String>| {
        let mut seen = BTreeSet::new();
        l.iter().all(|n| seen.insert(m_mod(n)))
    };
    let guards = uniq(tn.clone())
        && m.types.iter().all(|t| uniq(t.edges.iter().map(|e| e.0.clone()).chain(t.props.iter().cloned()).collect()));
    if !guards {
        out.push("K-guard-rejects-valid-schema");
    }
    let edge_plists: Vec<&Vec<String>> = m.types.iter().flat_map(|t| t.edges.iter().map(|e| &e.1)).collect();
    let entry_plists: Vec<&Vec<String>> = m.entry.iter().map(|e| &e.1).collect();
    let all_params: Vec<&String> = edge_plists.iter().chain(entry_plists.iter()).flat_map(|l| l.iter()).collect();
    if all_params.iter().any(|p| m_reserved(p))
        || m.types.iter().any(|t| m_reserved(&m_variant(&t.name)))
        || m.types.iter().any(|t| !t.edges.is_empty() && m_reserved(&m_mod(&t.name)))
        || m.types.iter().any(|t| t.edges.iter().any(|e| m_reserved(&m_mod(&e.0))))
        || m.entry.iter().any(|e| m_reserved(&m_mod(&e.0)))
    {
        out.push("K-reserved-word-unescaped");
    }
    if any_pair(&tn, |a, b| m_variant(a) == m_variant(b) && m_mod(a) != m_mod(b)) {
        out.push("K-variant-collision");
    }
    let vn: Vec<String> = tn.iter().map(|t| m_variant(t)).collect();
    if any_pair(&vn, |a, b| m_dsnake(a) == m_dsnake(b)) {
        out.push("K-derive-conversion-collision");
    }
    if m.types.iter().any(|t| !t.edges.is_empty() && m_snake(&m_variant(&t.name)) != m_dsnake(&m_variant(&t.name))) {
        out.push("K-conversion-name-mismatch");
    }
    let en: Vec<String> = m.entry.iter().map(|e| e.0.clone()).collect();
    if any_pair(&en, |a, b| m_mod(a) == m_mod(b)) {
        out.push("K-entrypoint-collision");
    }
    if all_params.iter().any(|p| CAPTURED.contains(&p.as_str()))
        || edge_plists.iter().any(|ps| ps.iter().any(|p| EDGE_FIXED.contains(&p.as_str())))
        || edge_plists.iter().chain(entry_plists.iter()).any(|ps| removelast(ps).iter().any(|p| p == "parameters"))
    {
        out.push("K-parameter-capture");
    }
    if m.types.iter().any(|t| t.edges.iter().any(|e| m_mod(&e.0) == "resolve_neighbors_with")) {
        out.push("K-import-clash");
    }
    if m.types.iter().any(|t| !t.edges.is_empty() && m_mod(&t.name) == "trustfall") {
        out.push("K-crate-shadow");
    }
    out
}

fn dups(l: &[String]) -> Vec<String> {
    let mut seen = BTreeSet::new();
    let mut d = BTreeSet::new();
    for x in l {
        if !seen.insert(x.clone()) {
            d.insert(x.clone());
        }
    }
    d.into_iter().collect()
}

/// Identifier-level necessary conditions of compilation, evaluated on the identifiers READ FROM
/// THE GENERATED FILES (independent of the model).  Returns (class or None, what, detail).
fn ident_failures(id: &Idents) -> Vec<(Option<&'static str>, String, Value)> {
    let mut f: Vec<(Option<&'static str>, String, Value)> = vec![];
    let d = dups(&id.variants);
    if !d.is_empty() {
        f.push((Some("K-variant-collision"), "enum Vertex has duplicate variants (rustc E0428)".into(), json!(d)));
    }
    let mut dv = id.variants.clone();
    dv.sort();
    dv.dedup();
    let convs: Vec<String> = dv.iter().map(|v| format!("as_{}", m_dsnake(v))).collect();
    let d = dups(&convs);
    if !d.is_empty() {
        f.push((Some("K-derive-conversion-collision"), "derive(TrustfallEnumVertex) defines the same as_* method for two variants (rustc E0592)".into(), json!(d)));
    }
    for (what, l) in [("property resolver fns", &id.prop_fns), ("edge resolver fns", &id.edge_fns)] {
        let d = dups(l);
        if !d.is_empty() {
            f.push((None, format!("duplicate {what}"), json!(d)));
        }
    }
    for r in &id.edge_refs {
        if !id.edge_fns.contains(r) {
            f.push((None, "adapter_impl.rs calls an edge resolver fn that edges.rs does not define".into(), json!(r)));
        }
    }
    let mods: Vec<String> = id.mods.iter().map(|m| m.0.clone()).collect();
    let d = dups(&mods);
    if !d.is_empty() {
        f.push((None, "duplicate edge modules".into(), json!(d)));
    }
    if mods.iter().any(|m| m == "trustfall") {
        f.push((Some("K-crate-shadow"), "edges.rs defines `mod trustfall`, shadowing the crate in `use trustfall::..` (rustc E0432)".into(), json!(null)));
    }
    let check_params = |fixed: &[&str], ps: &[String], whre: &str, f: &mut Vec<(Option<&'static str>, String, Value)>| {
        let d = dups(ps);
        if !d.is_empty() {
            f.push((None, format!("duplicate parameters in {whre}"), json!(d)));
        }
        for p in ps {
            if m_reserved(p) {
                f.push((Some("K-reserved-word-unescaped"), format!("reserved word used as a parameter name in {whre}"), json!(p)));
            }
            if fixed.contains(&p.as_str()) || CAPTURED.contains(&p.as_str()) {
                f.push((Some("K-parameter-capture"), format!("parameter name collides with a binding of the generated code or a prelude constructor in {whre}"), json!(p)));
            }
        }
        if removelast(ps).iter().any(|p| p == "parameters") {
            f.push((Some("K-parameter-capture"), format!("a non-last parameter named `parameters` shadows the EdgeParameters map in {whre}"), json!(ps)));
        }
    };
    for (m, fns) in &id.mods {
        let names: Vec<String> = fns.iter().map(|x| x.0.clone()).collect();
        let d = dups(&names);
        if !d.is_empty() {
            f.push((None, format!("duplicate edge fns in mod {m}"), json!(d)));
        }
        if names.iter().any(|n| n == "resolve_neighbors_with") {
            f.push((Some("K-import-clash"), format!("mod {m} defines fn resolve_neighbors_with next to the import of the same name (rustc E0255)"), json!(null)));
        }
        for (n, ps, cv) in fns {
            if !convs.contains(cv) {
                f.push((Some("K-conversion-name-mismatch"), format!("{m}::{n} calls a conversion method the derive macro does not define (rustc E0599)"), json!({"called": cv, "defined": convs})));
            }
            check_params(EDGE_FIXED, ps, &format!("{m}::{n}"), &mut f);
        }
    }
    let en: Vec<String> = id.entry_fns.iter().map(|e| e.0.clone()).collect();
    let d = dups(&en);
    if !d.is_empty() {
        f.push((Some("K-entrypoint-collision"), "entrypoints.rs defines the same fn twice (rustc E0428)".into(), json!(d)));
    }
    for (n, ps) in &id.entry_fns {
        check_params(&[], ps, &format!("entrypoints::{n}"), &mut f);
    }
    let mut defined: Vec<&String> = id.variants.iter().chain(id.prop_fns.iter()).chain(id.edge_fns.iter()).chain(mods.iter()).chain(en.iter()).collect();
    for (_, fns) in &id.mods {
        for x in fns {
            defined.push(&x.0);
        }
    }
    for i in defined {
        if m_reserved(i) {
            f.push((None, "a bare reserved word is emitted as an identifier".into(), json!(i)));
        }
    }
    f
}

// ------------------------------------------------------------------ fixed corpus

fn t(name: &str, props: &[&str], edges: &[(&str, &str, &[&str])]) -> VType {
    VType {
        name: name.into(),
        interface: false,
        implements: vec![],
        props: props.iter().map(|p| Prop { name: p.to_string(), ty: "Int".into() }).collect(),
        edges: edges.iter().map(|(n, tg, ps)| e(n, tg, ps)).collect(),
    }
}
fn e(name: &str, target: &str, params: &[&str]) -> Edge {
    Edge {
        name: name.into(),
        target: target.into(),
        wrap: 2,
        params: params.iter().enumerate().map(|(i, p)| Param { name: p.to_string(), ty: SCALARS[i % SCALARS.len()].into() }).collect(),
    }
}

/// (label, schema, compile in the thorough tier)
fn corpus() -> Vec<(&'static str, Sch)> {
    vec![
        // F15: the design's witness
        ("F15 aB/AB", Sch { types: vec![t("aB", &["id"], &[]), t("AB", &["id"], &[])], entry: vec![e("x", "aB", &[])] }),
        // every parameter type of SCALARS (scalars, lists with nullable / non-nullable elements, nested lists)
        // on a vertex edge and on an entry point: always compiled
        ("all parameter types compile", Sch {
            types: vec![t("Node", &["id"], &[("linked", "Node", &["p0", "p1", "p2", "p3", "p4", "p5", "p6", "p7", "p8", "p9", "p10", "p11", "p12"])])],
            entry: vec![e("Nodes", "Node", &["q0", "q1", "q2", "q3", "q4", "q5", "q6", "q7", "q8", "q9", "q10", "q11", "q12"])],
        }),
        ("conversion mismatch UserID", Sch { types: vec![t("UserID", &["id"], &[("friend", "UserID", &[])])], entry: vec![e("x", "UserID", &[])] }),
        ("UserID without edges compiles", Sch { types: vec![t("UserID", &["id"], &[])], entry: vec![e("x", "UserID", &[])] }),
        ("derive collision AB/a_b", Sch { types: vec![t("AB", &["id"], &[]), t("a_b", &["id"], &[])], entry: vec![e("x", "AB", &[])] }),
        ("entry points aB/a_b", Sch { types: vec![t("T", &["id"], &[])], entry: vec![e("aB", "T", &[]), e("a_b", "T", &[])] }),
        ("guard rejects aB/a_b", Sch { types: vec![t("aB", &["id"], &[]), t("a_b", &["id"], &[])], entry: vec![e("x", "aB", &[])] }),
        ("guard rejects type/type_", Sch { types: vec![t("type", &["id"], &[]), t("type_", &["id"], &[])], entry: vec![e("x", "type", &[])] }),
        ("guard rejects fields Type/type", Sch { types: vec![t("T", &["Type"], &[("type", "T", &[])])], entry: vec![e("x", "T", &[])] }),
        ("keyword parameter type", Sch { types: vec![t("T", &["id"], &[])], entry: vec![e("x", "T", &["type"])] }),
        ("self first entry parameter", Sch { types: vec![t("T", &["id"], &[])], entry: vec![e("x", "T", &["self", "z"])] }),
        ("self second entry parameter", Sch { types: vec![t("T", &["id"], &[])], entry: vec![e("x", "T", &["z", "self"])] }),
        ("self edge parameter", Sch { types: vec![t("T", &["id"], &[("e", "T", &["self"])])], entry: vec![e("x", "T", &[])] }),
        ("Self crate super _ true false parameters", Sch { types: vec![t("T", &["id"], &[("e", "T", &["Self", "crate", "super"])])], entry: vec![e("x", "T", &["_", "true", "false"])] }),
        ("edge yield", Sch { types: vec![t("T", &["id"], &[("yield", "T", &[])])], entry: vec![e("x", "T", &[])] }),
        ("type box with edge", Sch { types: vec![t("box", &["id"], &[("e", "box", &[])])], entry: vec![e("x", "box", &[])] }),
        ("type box without edge compiles", Sch { types: vec![t("box", &["id"], &[])], entry: vec![e("x", "box", &[])] }),
        ("entry point do", Sch { types: vec![t("T", &["id"], &[])], entry: vec![e("do", "T", &[])] }),
        ("type _", Sch { types: vec![t("_", &["id"], &[])], entry: vec![e("x", "_", &[])] }),
        ("parameter contexts", Sch { types: vec![t("T", &["id"], &[("e", "T", &["contexts"])])], entry: vec![e("x", "T", &[])] }),
        ("edge parameter resolve_neighbors_with", Sch { types: vec![t("T", &["id"], &[("e", "T", &["resolve_neighbors_with"])])], entry: vec![e("x", "T", &["resolve_neighbors_with"])] }),
        ("parameter contexts on entry compiles", Sch { types: vec![t("T", &["id"], &[])], entry: vec![e("x", "T", &["contexts"])] }),
        ("parameter resolve_info", Sch { types: vec![t("T", &["id"], &[])], entry: vec![e("x", "T", &["resolve_info"])] }),
        ("parameter _resolve_info", Sch { types: vec![t("T", &["id"], &[("e", "T", &["_resolve_info"])])], entry: vec![e("x", "T", &[])] }),
        ("parameter parameters then z", Sch { types: vec![t("T", &["id"], &[])], entry: vec![e("x", "T", &["parameters", "z"])] }),
        ("parameter parameters last compiles", Sch { types: vec![t("T", &["id"], &[("e", "T", &["z", "parameters"])])], entry: vec![e("x", "T", &["parameters"])] }),
        ("parameter None", Sch { types: vec![t("T", &["id"], &[("e", "T", &["Some"])])], entry: vec![e("x", "T", &["None", "Ok", "Err"])] }),
        ("edge resolve_neighbors_with", Sch { types: vec![t("T", &["id"], &[("resolveNeighborsWith", "T", &[])])], entry: vec![e("x", "T", &[])] }),
        ("type trustfall with edge", Sch { types: vec![t("Trustfall", &["id"], &[("e", "Trustfall", &[])])], entry: vec![e("x", "Trustfall", &[])] }),
        ("escaped keywords everywhere compile", Sch {
            types: vec![
                t("type", &["id", "match"], &[("type", "type", &[]), ("fn", "self", &[]), ("async", "crate", &["gen", "union"])]),
                t("self", &["self"], &[("me", "self", &["raw"])]),
                t("crate", &[], &[("crate", "crate", &[])]),
                t("super", &["id"], &[("super", "super", &["macro_rules"])]),
                t("std", &["id"], &[("std", "std", &["vertex", "edge_name", "V"])]),
                t("vertex", &["id"], &[("vertex", "vertex", &[])]),
            ],
            entry: vec![e("type", "type", &[]), e("self", "self", &["auto"]), e("Self_", "self", &[]), e("dyn", "crate", &[]), e("macro_rules", "super", &[]), e("union", "std", &[])],
        }),
        ("case variants compile", Sch {
            types: vec![
                t("ab", &["aB", "AB_"], &[("a__b", "ab", &["aB", "a_b"]), ("A1", "a_1", &[])]),
                t("a_1", &["a_1"], &[("Ab_", "ab", &[])]),
                t("_aB", &["id"], &[("_ab", "_aB", &[])]),
                t("ab__", &["id"], &[]),
            ],
            entry: vec![e("aB", "ab", &[]), e("AB", "a_1", &["A_B"]), e("a__b", "_aB", &[])],
        }),
    ]
}

// ------------------------------------------------------------------ derive probe
/// Ties the Rust mirror of trustfall_derive's private `to_lower_snake_case` to the macro itself:
/// a crate that derives TrustfallEnumVertex on an enum of adversarial variants and calls every
/// predicted `as_*` method compiles iff the predictions are the defined names.
fn derive_probe(root: &Path) -> (bool, String, usize) {
    let mut variants: Vec<String> = vec![];
    let mut convs: BTreeSet<String> = BTreeSet::new();
    for n in CASE_NAMES.iter().chain(KEYWORDS.iter()).chain(KEYWORDS_UNESCAPED.iter()).chain(SAFE_PARAMS.iter()).chain(FIXED_NAMES.iter()).chain(PLAIN_TYPES.iter()).chain(["UserID", "HTTPServer", "A__B", "X_", "aBCd", "A1B2"].iter()) {
        let v = m_variant(n);
        if m_reserved(&v) || variants.contains(&v) || !convs.insert(m_dsnake(&v)) {
            continue;
        }
        variants.push(v);
    }
    let cd = root.join("derive_probe");
    let _ = std::fs::remove_dir_all(&cd);
    std::fs::create_dir_all(cd.join("src")).unwrap();
    std::fs::write(
        cd.join("Cargo.toml"),
        format!("[package]\nname = \"{CRATE_NAME}\"\npublish = false\nversion = \"0.1.0\"\nedition = \"2021\"\n\n[dependencies]\ntrustfall = {{ path = '/repo/trustfall' }}\n\n[workspace]\n"),
    )
    .unwrap();
    let _ = std::fs::copy("/repo/Cargo.lock", cd.join("Cargo.lock"));
    let mut src = String::from("#[derive(Debug, Clone, trustfall::provider::TrustfallEnumVertex)]\npub enum Vertex {\n");
    for v in &variants {
        src.push_str(&format!("    {v}(()),\n"));
    }
    src.push_str("}\npub fn probe(v: &Vertex) -> usize {\n    let mut n = 0;\n");
    for v in &variants {
        src.push_str(&format!("    if v.as_{}().is_some() {{ n += 1; }}\n", m_dsnake(v)));
    }
    src.push_str("    n\n}\n");
    std::fs::write(cd.join("src").join("lib.rs"), src).unwrap();
    let (ok, err, _) = compile_crate(&cd);
    (ok, err, variants.len())
}

// ------------------------------------------------------------------ the run

fn schema_json(s: &Sch) -> Value {
    json!({ "schema": schema_text(s).replace(HEADER, "") })
}

fn adversarial(m: &MSchema) -> bool {
    let plain = |n: &String| {
        PLAIN_TYPES.contains(&n.as_str()) || PLAIN_FIELDS.contains(&n.as_str()) || PLAIN_PARAMS.contains(&n.as_str())
    };
    !(m.types.iter().all(|t| plain(&t.name) && t.props.iter().all(plain) && t.edges.iter().all(|e| plain(&e.0) && e.1.iter().all(plain)))
        && m.entry.iter().all(|e| plain(&e.0) && e.1.iter().all(plain)))
}

#[derive(Default)]
struct Quota {
    plain: usize,
    kw_clean: usize,
    case_clean: usize,
    mixed_clean: usize,
    classed: usize,
}

fn run(seed: u64, n: usize, compiles: usize, oracle_only: bool, out: &mut Out) {
    let mut rng = Rng::new(seed);
    let root = scratch_root();
    let _ = std::fs::remove_dir_all(&root);
    std::fs::create_dir_all(&root).unwrap();
    let gen_dir = root.join("gen");

    // ---- mirror ties: the Rust mirrors used for classification vs the Coq definitions
    if !oracle_only {
        let mut names: Vec<String> = CASE_NAMES.iter().chain(KEYWORDS.iter()).chain(KEYWORDS_UNESCAPED.iter()).chain(SAFE_PARAMS.iter()).chain(FIXED_NAMES.iter()).chain(PLAIN_TYPES.iter()).chain(PLAIN_FIELDS.iter()).chain(RESERVED.iter()).chain(ESCAPED.iter()).map(|s| s.to_string()).collect();
        let alphabet = ['a', 'b', 'A', 'B', 'Z', 'z', '_', '1', '9', 'Q'];
        for _ in 0..(n / 2).max(50) {
            let len = 1 + rng.below(7);
            names.push((0..len).map(|_| *rng.pick(&alphabet)).collect());
        }
        names.sort();
        names.dedup();
        for nm in &names {
            let imp = format!(
                "{}|{}|{}|{}|{}|{}",
                m_snake(nm), m_dsnake(nm), m_variant(nm), m_mod(nm), if m_reserved(nm) { "T" } else { "F" },
                m_snake(&m_snake(nm))
            );
            let c = cstr(nm);
            let coq = format!(
                "to_lower_snake_case {c} ++ \"|\" ++ derive_to_lower_snake_case {c} ++ \"|\" ++ variant_name {c} ++ \"|\" ++ mod_name {c} ++ \"|\" ++ (if reserved {c} then \"T\" else \"F\") ++ \"|\" ++ to_lower_snake_case (to_lower_snake_case {c})"
            );
            out.count("mirror:name");
            out.add(Case { input: json!({"name": nm}), coq, imp, nontrivial: m_snake(nm) != *nm || m_escaped(nm) != *nm, key: format!("name:{nm}") });
        }
    }

    // ---- compile budget: quick = F15 witness + one plain + one keyword + one case schema outside
    // every known class; otherwise the whole corpus (only produced stubs cost a compile) and the
    // rest of the budget on random schemas, by quota (set when the corpus is done)
    let corpus = corpus();
    let mut quota = Quota::default();
    let mut corpus_compile: Vec<bool> = vec![compiles > 4; corpus.len()];
    if compiles <= 4 {
        corpus_compile[0] = compiles >= 1; // the F15 witness
        corpus_compile[1] = compiles >= 1; // every parameter type
        quota.plain = (compiles >= 2) as usize;
        quota.kw_clean = (compiles >= 3) as usize;
        quota.case_clean = (compiles >= 4) as usize;
    }

    // ---- derive probe (one compile)
    if compiles > 0 {
        let (ok, err, nv) = derive_probe(&root);
        out.count_n("derive_probe_variants", nv as u64);
        if !ok {
            out.oracle_fail(
                "derive probe: the as_* method names predicted from trustfall_derive's to_lower_snake_case are not the ones #[derive(TrustfallEnumVertex)] defines (model of the derive macro is wrong)",
                json!({"probe": "derive_probe"}),
                json!({"rustc": err}),
            );
        }
    }

    let modes = [Mode::Plain, Mode::Keywords, Mode::Case, Mode::Mixed, Mode::Case, Mode::Keywords];
    let total = corpus.len() + n;
    let mut compiled = 0usize;
    let mut compile_secs = 0f64;
    for i in 0..total {
        let (label, s, mode, force_compile) = if i < corpus.len() {
            (corpus[i].0.to_string(), corpus[i].1.clone(), Mode::Mixed, corpus_compile[i])
        } else {
            let mode = modes[(i - corpus.len()) % modes.len()];
            (format!("random {mode:?}"), gen_schema(&mut rng, mode), mode, false)
        };
        if i == corpus.len() && compiles > 4 {
            let r = compiles.saturating_sub(compiled);
            quota.plain = r / 8 + 1;
            quota.kw_clean = r / 4;
            quota.case_clean = r / 4;
            quota.mixed_clean = r / 6;
            quota.classed = r.saturating_sub(quota.plain + quota.kw_clean + quota.case_clean + quota.mixed_clean);
        }
        let text = schema_text(&s);
        if trustfall_core::schema::Schema::parse(&text).is_err() {
            out.count("skipped:invalid-schema");
            if i < corpus.len() {
                out.oracle_fail("corpus schema is not a valid Trustfall schema (harness bug)", schema_json(&s), json!(label));
            }
            continue;
        }
        let m = to_model(&s);
        let cls = classes(&m);
        let input = schema_json(&s);
        out.count(&format!("schema:{}", if i < corpus.len() { "corpus".to_string() } else { format!("{mode:?}") }));
        out.count(&format!("types:{}", m.types.len()));
        for c in &cls {
            out.count(&format!("class:{c}"));
        }
        if cls.is_empty() {
            out.count("class:none");
            out.count(&format!("clean:{}", if i < corpus.len() { "corpus".to_string() } else { format!("{mode:?}") }));
        }

        // decide about compiling before generating (generation goes straight into the crate)
        let want_compile = force_compile
            || (i >= corpus.len()
                && match (mode, cls.is_empty()) {
                    (Mode::Plain, true) if quota.plain > 0 => { quota.plain -= 1; true }
                    (Mode::Keywords, true) if quota.kw_clean > 0 && adversarial(&m) => { quota.kw_clean -= 1; true }
                    (Mode::Case, true) if quota.case_clean > 0 && adversarial(&m) => { quota.case_clean -= 1; true }
                    (Mode::Mixed, true) if quota.mixed_clean > 0 => { quota.mixed_clean -= 1; true }
                    (_, false) if quota.classed > 0 && !cls.contains(&"K-guard-rejects-valid-schema") && mode != Mode::Plain => { quota.classed -= 1; true }
                    _ => false,
                });
        let crate_dir = root.join("crate");
        let res = if want_compile {
            make_crate(&text, &crate_dir)
        } else {
            let _ = std::fs::remove_dir_all(&gen_dir);
            std::fs::create_dir_all(&gen_dir).unwrap();
            run_generator(&text, &gen_dir)
        };

        let cs = c_schema(&m);
        let nontrivial = adversarial(&m);
        let (imp_gen, imp_verdict) = match &res {
            GenResult::Ok(id) => {
                let fails = ident_failures(id);
                (show_idents(id), if fails.is_empty() { "T" } else { "F" }.to_string())
            }
            GenResult::Panic(_) => ("PANIC".to_string(), "PANIC".to_string()),
            GenResult::Err(e) => (format!("ERR {e}"), "ERR".to_string()),
        };
        if !oracle_only {
            out.add(Case { input: input.clone(), coq: format!("show_generate {cs}"), imp: imp_gen.clone(), nontrivial, key: format!("gen:{cs}") });
            out.add(Case { input: input.clone(), coq: format!("show_classes {cs}"), imp: cls.join(","), nontrivial, key: format!("cls:{cs}") });
            out.add(Case { input: input.clone(), coq: format!("show_verdict {cs}"), imp: imp_verdict.clone(), nontrivial, key: format!("verdict:{cs}") });
        }

        // ---- oracle (1): a stub is produced and its identifiers can compile
        match &res {
            GenResult::Err(e) => out.oracle_fail("generate_rust_stub returned Err on a valid schema", input.clone(), json!(e)),
            GenResult::Panic(msg) => {
                out.count("outcome:panic");
                let class = if msg.starts_with("cannot generate adapter for a schema containing both") {
                    Some("K-guard-rejects-valid-schema")
                } else if cls.contains(&"K-reserved-word-unescaped") {
                    // syn ("not valid Rust: ..") or prettyplease ("not implemented: Expr::Verbatim ..")
                    Some("K-reserved-word-unescaped")
                } else {
                    None
                };
                match class {
                    Some(c) => out.oracle_fail_class(c, "generate_rust_stub panics on a valid schema: no stub is produced", input.clone(), json!({"panic": msg, "classes": cls})),
                    None => out.oracle_fail("generate_rust_stub panics on a valid schema: no stub is produced", input.clone(), json!({"panic": msg, "classes": cls})),
                }
            }
            GenResult::Ok(id) => {
                let fails = ident_failures(id);
                out.count(if fails.is_empty() { "outcome:idents-ok" } else { "outcome:idents-bad" });
                for (class, what, detail) in fails {
                    match class {
                        Some(c) => out.oracle_fail_class(c, &what, input.clone(), json!({"detail": detail, "idents": show_idents(id)})),
                        None => out.oracle_fail(&what, input.clone(), json!({"detail": detail, "idents": show_idents(id)})),
                    }
                }
            }
        }

        // ---- oracle (2): rustc
        if want_compile {
            if let GenResult::Ok(id) = &res {
                let (ok, err, dt) = compile_crate(&crate_dir);
                compiled += 1;
                compile_secs += dt;
                out.count(if ok { "compile:ok" } else { "compile:failed" });
                out.count(&format!("compile:{}", if i < corpus.len() { "corpus".to_string() } else { format!("{mode:?}") }));
                if !oracle_only {
                    // the model's identifier-level verdict must predict rustc on the sampled schemas
                    out.add(Case {
                        input: json!({"schema": input["schema"], "compiled": true}),
                        coq: format!("show_verdict {cs}"),
                        imp: if ok { "T" } else { "F" }.to_string(),
                        nontrivial,
                        key: format!("rustc:{cs}"),
                    });
                }
                if !ok {
                    let detail = json!({"rustc": err, "codes": error_codes(&err), "classes": cls, "idents": show_idents(id), "label": label});
                    match cls.first() {
                        Some(c) => out.oracle_fail_class(c, "the generated stub does not compile (cargo test --no-run)", input.clone(), detail),
                        None => out.oracle_fail("the generated stub does not compile (cargo test --no-run)", input.clone(), detail),
                    }
                }
            } else {
                out.count("compile:no-stub");
                if i >= corpus.len() {
                    // only schemas in a known class can get here: give the budget back
                    quota.classed += 1;
                }
            }
            let _ = std::fs::remove_dir_all(&crate_dir);
        }
    }
    out.count_n("compiled", compiled as u64);
    out.extra.insert("compile_seconds".into(), json!(compile_secs.round()));
    let _ = std::fs::remove_dir_all(&root);
}

// ------------------------------------------------------------------ main

struct Args {
    seed: u64,
    n: usize,
    out: PathBuf,
    rest: Vec<String>,
}

fn parse_args(v: &[String]) -> Args {
    let mut a = Args { seed: 0, n: 100, out: PathBuf::from("."), rest: vec![] };
    let mut i = 0;
    while i < v.len() {
        match v[i].as_str() {
            "--seed" => { a.seed = v[i + 1].parse().unwrap(); i += 2; }
            "--n" => { a.n = v[i + 1].parse().unwrap(); i += 2; }
            "--out" => { a.out = PathBuf::from(&v[i + 1]); i += 2; }
            _ => { a.rest.push(v[i].clone()); i += 1; }
        }
    }
    a
}

fn probe(files: &[String], compile: bool) {
    let root = scratch_root();
    for f in files {
        let text = std::fs::read_to_string(f).unwrap();
        println!("=== {f}");
        match trustfall_core::schema::Schema::parse(&text) {
            Ok(_) => println!("schema: valid"),
            Err(e) => { println!("schema: INVALID {e}"); continue; }
        }
        let cd = root.join("crate");
        match make_crate(&text, &cd) {
            GenResult::Ok(id) => {
                println!("generated: {}", show_idents(&id));
                for (c, w, d) in ident_failures(&id) {
                    println!("ident-level: {c:?} {w} {d}");
                }
                if compile {
                    let (ok, err, dt) = compile_crate(&cd);
                    println!("compile: {} ({dt:.1}s) codes={:?}", if ok { "OK" } else { "FAILED" }, error_codes(&err));
                    if !ok {
                        println!("{err}");
                    }
                }
            }
            GenResult::Panic(m) => println!("generator PANIC: {m}"),
            GenResult::Err(m) => println!("generator Err: {m}"),
        }
    }
    let _ = std::fs::remove_dir_all(&root);
}

fn main() {
    let argv: Vec<String> = std::env::args().collect();
    if argv.len() < 2 {
        eprintln!("usage: tfh_c26 c26 --seed S --n N --out DIR [--oracle-only] [--compiles K] | probe [--compile] FILE..");
        std::process::exit(2);
    }
    // the panic MESSAGE is read from the payload; keep stderr quiet
    std::panic::set_hook(Box::new(|_| {}));
    match argv[1].as_str() {
        "c26" => {
            let args = parse_args(&argv[2..]);
            let oracle_only = args.rest.iter().any(|x| x == "--oracle-only");
            let compiles = args.rest.iter().position(|x| x == "--compiles").and_then(|i| args.rest.get(i + 1)).and_then(|x| x.parse().ok()).unwrap_or(4usize);
            let mut o = Out::new(&args.out, "From TF Require Import Values Names.", 400);
            run(args.seed, args.n, compiles, oracle_only, &mut o);
            o.finish();
        }
        "probe" => {
            let compile = argv.iter().any(|a| a == "--compile");
            let files: Vec<String> = argv[2..].iter().filter(|a| !a.starts_with("--")).cloned().collect();
            probe(&files, compile);
        }
        "gen" => {
            // print a few generated schemas (debugging aid)
            let args = parse_args(&argv[2..]);
            let mut rng = Rng::new(args.seed);
            for i in 0..args.n {
                let mode = [Mode::Plain, Mode::Keywords, Mode::Case, Mode::Mixed][i % 4];
                let s = gen_schema(&mut rng, mode);
                let t = schema_text(&s);
                println!("# {i} {mode:?} valid={} classes={:?}", trustfall_core::schema::Schema::parse(&t).is_ok(), classes(&to_model(&s)));
                println!("{}", t.replace(HEADER, ""));
                println!("{}", c_schema(&to_model(&s)));
            }
        }
        other => {
            eprintln!("unknown subcommand {other}");
            std::process::exit(2);
        }
    }
    let _ = BTreeMap::<u8, u8>::new();
}
