//! tfh_c27 — Rust half of C27 (Python bindings agree with the Rust engine).
//! Generates N engine cases (world + query + arguments) with the shared generator, runs them through
//! the real Rust engine over `GraphAdapter`, and writes everything the Python side needs to rebuild
//! the same world behind a Python `Adapter` (`worlds.json`: schema text, dataset, query, arguments and
//! the Rust engine's outcome, with every FieldValue encoded with an explicit kind tag).
//! The comparison itself is done by tools/c27_runner.py after running tools/c27_driver.py under the
//! freshly built extension module.  No Coq cases are produced here (the conversion-probe tie is
//! written by the runner), so `summary.json` reports zero cases.
//! usage: tfh_c27 c27 --seed S --n N --out DIR [--oracle-only]
#[path = "../coq.rs"]
mod coq;
#[path = "../engine.rs"]
mod engine;
#[path = "../irprint.rs"]
mod irprint;
#[path = "../out.rs"]
mod out;
#[path = "../qgen.rs"]
mod qgen;
#[path = "../rng.rs"]
mod rng;
#[path = "../show.rs"]
mod show;
#[path = "../world.rs"]
mod world;

use serde_json::{json, Map, Value};
use std::collections::BTreeMap;
use std::path::PathBuf;
use trustfall_core::ir::FieldValue;

pub struct Args {
    pub seed: u64,
    pub n: usize,
    pub out: PathBuf,
    pub rest: Vec<String>,
}

fn parse_args(v: &[String]) -> Args {
    let mut a = Args { seed: 0, n: 100, out: PathBuf::from("."), rest: vec![] };
    let mut i = 0;
    while i < v.len() {
        match v[i].as_str() {
            "--seed" => { a.seed = v[i + 1].parse().unwrap(); i += 2; }
            "--n" => { a.n = v[i + 1].parse().unwrap(); i += 2; }
            "--out" => { a.out = PathBuf::from(&v[i + 1]); i += 2; }
            _ => { a.rest.push(v[i].clone()); i += 1; }
        }
    }
    a
}

/// FieldValue with explicit kind tags; integers and float bit patterns as decimal strings so that
/// no JSON reader can round them.
fn jfv(v: &FieldValue) -> Value {
    match v {
        FieldValue::Null => Value::Null,
        FieldValue::Int64(i) => json!({"i": i.to_string()}),
        FieldValue::Uint64(u) => json!({"u": u.to_string()}),
        FieldValue::Float64(f) => json!({"f": f.to_bits().to_string()}),
        FieldValue::String(s) => json!({"s": s.to_string()}),
        FieldValue::Boolean(b) => json!({"b": b}),
        FieldValue::Enum(s) => json!({"e": s.to_string()}),
        FieldValue::List(l) => json!({"l": l.iter().map(jfv).collect::<Vec<_>>()}),
        _ => json!({"unknown": true}),
    }
}

fn dataset_json(d: &world::Dataset) -> Value {
    let vtype: BTreeMap<String, String> = d.vtype.iter().map(|(k, v)| (k.to_string(), v.to_string())).collect();
    let props: BTreeMap<String, BTreeMap<String, Value>> = d
        .props
        .iter()
        .map(|(k, pm)| (k.to_string(), pm.iter().map(|(n, x)| (n.clone(), jfv(x))).collect()))
        .collect();
    let edges: BTreeMap<String, BTreeMap<String, Vec<u64>>> =
        d.edges.iter().map(|(k, em)| (k.to_string(), em.clone())).collect();
    json!({"vtype": vtype, "props": props, "edges": edges, "starts": d.starts})
}

fn main() {
    let argv: Vec<String> = std::env::args().collect();
    if argv.len() < 2 || argv[1] != "c27" {
        eprintln!("usage: tfh_c27 c27 [--seed S] [--n N] [--out DIR]");
        std::process::exit(2);
    }
    let args = parse_args(&argv[2..]);
    std::panic::set_hook(Box::new(|_| {}));
    let mut o = out::Out::new(&args.out, "From TF Require Import Values Show PyConv.", 1500);

    let mut rng = rng::Rng::new(args.seed);
    let schema = world::schema();
    let mut stats = engine::GenStats {
        generated: 0,
        frontend_rejected: 0,
        frontend_panicked: 0,
        reject_kinds: Default::default(),
    };
    let mut worlds = vec![];
    for idx in 0..args.n {
        // no deliberately defect-provoking inputs: the engine's own known defects belong to C01/C07/C09
        let c = engine::gen_case(&mut rng, &schema, &mut stats, 0);
        let outcome = engine::run_impl(&c);
        let rust = match &outcome {
            engine::Outcome::Rows(rows) => {
                o.count(if rows.is_empty() { "rust:no-rows" } else { "rust:rows" });
                o.count_n("rust:rows-total", rows.len() as u64);
                let rs: Vec<Value> = rows
                    .iter()
                    .map(|r| {
                        let m: Map<String, Value> = r.iter().map(|(k, v)| (k.to_string(), jfv(v))).collect();
                        Value::Object(m)
                    })
                    .collect();
                json!({"kind": "ROWS", "rows": rs})
            }
            engine::Outcome::ArgError(m) => {
                o.count("rust:arg-error");
                json!({"kind": "ARGERR", "msg": m.chars().take(300).collect::<String>()})
            }
            engine::Outcome::Panic(m) => {
                o.count("rust:panic");
                json!({"kind": "PANIC", "msg": m.chars().take(300).collect::<String>()})
            }
        };
        for f in &c.features {
            o.count(&format!("feat:{f}"));
        }
        let jargs: BTreeMap<String, Value> = c.args.iter().map(|(k, v)| (k.to_string(), jfv(v))).collect();
        worlds.push(json!({
            "idx": idx,
            "query": c.query_text,
            "args": jargs,
            "dataset": dataset_json(&c.dataset),
            "rust": rust,
            "features": c.features,
        }));
    }
    o.count_n("gen:attempts", stats.generated);
    o.count_n("gen:frontend-rejected", stats.frontend_rejected);
    let subs: BTreeMap<String, Vec<&'static str>> =
        world::type_defs().iter().map(|t| (t.name.to_string(), world::instances_of(t.name))).collect();
    let doc = json!({
        "seed": args.seed,
        "schema": world::schema_text(),
        "subs": subs,
        "worlds": worlds,
    });
    std::fs::write(args.out.join("worlds.json"), serde_json::to_string(&doc).unwrap()).unwrap();
    o.finish();
}
