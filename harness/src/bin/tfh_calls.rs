//! tfh_calls — C03 (evaluation is lazy) and C21 (adapters are only called with arguments the adapter
//! contract promises).
//!
//! usage: tfh_calls <c03|c21> --seed S --n N --out DIR [--oracle-only]
//!
//! Every case is a generated world (dataset + query + arguments accepted by the real frontend).
//!
//! c03  oracle: `CountingAdapter` (GraphAdapter that never reads ahead; the starting-vertex iterator,
//!              every neighbour iterator and every context passing through a resolver bump shared
//!              `Rc<Cell<usize>>` counters).  Checked on the real engine, for every world:
//!              (1) nothing is pulled between `interpret_ir(..)` returning and the first `next()`;
//!              (2) for EVERY k in 1..=rows: after the k-th row has been returned the number of
//!                  starting vertices pulled is EXACTLY `need(k)` = the least m such that the first
//!                  m starting vertices contribute >= k rows (per-start row counts come from running
//!                  the same query once per single starting vertex).  No "+1" is allowed: std's
//!                  `map` / `filter_map` / `flat_map` and the engine's EdgeExpander /
//!                  RecursiveEdgeExpander never peek at their source after yielding an item, so the
//!                  start that contributes row k is the last one pulled.  After the final `None`
//!                  all starting vertices (and the source's own `None`) have been pulled.  Also the
//!                  neighbour pulls so far are at most those of complete runs over the first
//!                  need(k) starting vertices;
//!              (3) take k rows then drop the iterator: no counter moves during or after the drop;
//!              (4) the rows of the full run are the concatenation of the single-start runs.
//!      tie:    the per-start row counts and the observed pulls-after-row-k of the implementation
//!              vs `Lazy.run_c03` (model counts and `need`).
//! c21  oracle: `ContractAdapter` checks on EVERY call of the real engine against the world schema
//!              tables: type exists; property/edge defined on that type (or __typename); coercion
//!              target in subtypes_of(type); edge parameters = exactly the declared names, each value
//!              valid for its declared type, and equal to the completion (explicit value, schema
//!              default, or null) of some textual occurrence of that edge in the query; every `Some`
//!              active vertex flowing into the call has a concrete type in instances_of(type).
//!              Plus fixed parameter-completion probes and a probe schema with sibling interfaces.
//!      tie:    CONFORMS (the dataset meets the hypothesis of the dynamic theorem), TYPED / CONTRACT verdicts of the model, the set of calls made while the pipeline is
//!              built vs `static_calls_of_query`, and observed calls ⊆ `calls_of_query`
//!              (`Calls.run_c21`); for fold-free queries STATIC = OBSERVED, i.e. set equality.
#[path = "../coq.rs"]
mod coq;
#[path = "../engine.rs"]
mod engine;
#[path = "../irprint.rs"]
mod irprint;
#[path = "../out.rs"]
mod out;
#[path = "../qgen.rs"]
mod qgen;
#[path = "../rng.rs"]
mod rng;
#[path = "../show.rs"]
mod show;
#[path = "../world.rs"]
mod world;

use coq::{cfv, clist, cstr};
use engine::*;
use irprint::{eid_n, vid_n};
use out::{Case, Out};
use rng::Rng;
use serde_json::{json, Value};
use show::show_fv;
use std::cell::{Cell, RefCell};
use std::collections::{BTreeMap, BTreeSet};
use std::panic::{catch_unwind, AssertUnwindSafe};
use std::path::PathBuf;
use std::rc::Rc;
use std::sync::Arc;
use trustfall_core::frontend::parse;
use trustfall_core::interpreter::execution::interpret_ir;
use trustfall_core::interpreter::{
    Adapter, AsVertex, ContextIterator, ContextOutcomeIterator, ResolveEdgeInfo, ResolveInfo,
    VertexInfo, VertexIterator,
};
use trustfall_core::ir::{EdgeParameters, FieldValue, Type};
use trustfall_core::schema::Schema;
use world::*;

// ------------------------------------------------------------------ CLI

pub struct Args {
    pub seed: u64,
    pub n: usize,
    pub out: PathBuf,
    pub rest: Vec<String>,
}

fn parse_args(v: &[String]) -> Args {
    let mut a = Args { seed: 0, n: 100, out: PathBuf::from("."), rest: vec![] };
    let mut i = 0;
    while i < v.len() {
        match v[i].as_str() {
            "--seed" => {
                a.seed = v[i + 1].parse().unwrap();
                i += 2;
            }
            "--n" => {
                a.n = v[i + 1].parse().unwrap();
                i += 2;
            }
            "--out" => {
                a.out = PathBuf::from(&v[i + 1]);
                i += 2;
            }
            _ => {
                a.rest.push(v[i].clone());
                i += 1;
            }
        }
    }
    a
}

fn panic_text(e: Box<dyn std::any::Any + Send>) -> String {
    if let Some(s) = e.downcast_ref::<&str>() {
        s.to_string()
    } else if let Some(s) = e.downcast_ref::<String>() {
        s.clone()
    } else {
        "<non-string panic>".to_string()
    }
}

fn new_stats() -> GenStats {
    GenStats { generated: 0, frontend_rejected: 0, frontend_panicked: 0, reject_kinds: Default::default() }
}

// ================================================================== C03

#[derive(Default)]
struct Counters {
    /// starting vertices handed out by the starting-vertex iterator
    starts: Cell<usize>,
    /// the starting-vertex iterator has returned None
    starts_done: Cell<bool>,
    /// neighbours handed out by all neighbour iterators
    nbrs: Cell<usize>,
    /// contexts pulled through any resolver (property / neighbours / coercion)
    ctxs: Cell<usize>,
}

impl Counters {
    fn snap(&self) -> (usize, bool, usize, usize) {
        (self.starts.get(), self.starts_done.get(), self.nbrs.get(), self.ctxs.get())
    }
}

fn bump(c: &Cell<usize>) {
    c.set(c.get() + 1);
}

/// GraphAdapter with pull counters.  It does NOT read ahead: every iterator it returns pulls from its
/// source only when it is itself asked for the next item.
#[derive(Clone)]
struct CountingAdapter {
    inner: GraphAdapter,
    c: Rc<Counters>,
}

/// self-test of the oracle (`--selftest-eager`, never used by ./check): put a `collect()` between the
/// counted source and the engine, as an eager pipeline stage would; the oracle must then fail.
static SELFTEST_EAGER: std::sync::atomic::AtomicBool = std::sync::atomic::AtomicBool::new(false);

impl CountingAdapter {
    fn new(d: Dataset) -> Self {
        CountingAdapter { inner: GraphAdapter::new(d), c: Rc::new(Counters::default()) }
    }
}

impl Adapter<'static> for CountingAdapter {
    type Vertex = u64;

    fn resolve_starting_vertices(
        &self,
        edge_name: &Arc<str>,
        parameters: &EdgeParameters,
        _resolve_info: &ResolveInfo,
    ) -> VertexIterator<'static, Self::Vertex> {
        let c = self.c.clone();
        let mut it = self.inner.starts(edge_name, parameters).into_iter();
        let counted = std::iter::from_fn(move || match it.next() {
            Some(v) => {
                bump(&c.starts);
                Some(v)
            }
            None => {
                c.starts_done.set(true);
                None
            }
        });
        if SELFTEST_EAGER.load(std::sync::atomic::Ordering::Relaxed) {
            let mut counted = Some(counted);
            let mut buffered: Option<std::vec::IntoIter<u64>> = None;
            return Box::new(std::iter::from_fn(move || {
                if buffered.is_none() {
                    buffered = Some(counted.take().unwrap().collect::<Vec<_>>().into_iter());
                }
                buffered.as_mut().unwrap().next()
            }));
        }
        Box::new(counted)
    }

    fn resolve_property<V: AsVertex<Self::Vertex> + 'static>(
        &self,
        contexts: ContextIterator<'static, V>,
        _type_name: &Arc<str>,
        property_name: &Arc<str>,
        _resolve_info: &ResolveInfo,
    ) -> ContextOutcomeIterator<'static, V, FieldValue> {
        let me = self.clone();
        let name = property_name.clone();
        Box::new(contexts.map(move |ctx| {
            bump(&me.c.ctxs);
            let val = match ctx.active_vertex::<u64>() {
                Some(v) => me.inner.prop(&name, *v),
                None => FieldValue::Null,
            };
            (ctx, val)
        }))
    }

    fn resolve_neighbors<V: AsVertex<Self::Vertex> + 'static>(
        &self,
        contexts: ContextIterator<'static, V>,
        _type_name: &Arc<str>,
        edge_name: &Arc<str>,
        parameters: &EdgeParameters,
        _resolve_info: &ResolveEdgeInfo,
    ) -> ContextOutcomeIterator<'static, V, VertexIterator<'static, Self::Vertex>> {
        let me = self.clone();
        let name = edge_name.clone();
        let ps = parameters.clone();
        Box::new(contexts.map(move |ctx| {
            bump(&me.c.ctxs);
            let ns: Vec<u64> = match ctx.active_vertex::<u64>() {
                Some(v) => me.inner.nbrs(&name, &ps, *v),
                None => vec![],
            };
            let c = me.c.clone();
            let mut it = ns.into_iter();
            let counted: VertexIterator<'static, u64> = Box::new(std::iter::from_fn(move || {
                let x = it.next();
                if x.is_some() {
                    bump(&c.nbrs);
                }
                x
            }));
            (ctx, counted)
        }))
    }

    fn resolve_coercion<V: AsVertex<Self::Vertex> + 'static>(
        &self,
        contexts: ContextIterator<'static, V>,
        _type_name: &Arc<str>,
        coerce_to_type: &Arc<str>,
        _resolve_info: &ResolveInfo,
    ) -> ContextOutcomeIterator<'static, V, bool> {
        let me = self.clone();
        let to = coerce_to_type.clone();
        Box::new(contexts.map(move |ctx| {
            bump(&me.c.ctxs);
            let ok = match ctx.active_vertex::<u64>() {
                Some(v) => me.inner.coerce(&to, *v),
                None => false,
            };
            (ctx, ok)
        }))
    }
}

/// least m such that the first m counts sum to >= k (k >= 1); all of them if there is no such m
fn need(counts: &[usize], k: usize) -> usize {
    if k == 0 {
        return 0;
    }
    let mut sum = 0usize;
    for (i, c) in counts.iter().enumerate() {
        sum += c;
        if sum >= k {
            return i + 1;
        }
    }
    counts.len()
}

fn nats(xs: &[usize]) -> String {
    xs.iter().map(|x| x.to_string()).collect::<Vec<_>>().join(",")
}

struct LazyObs {
    /// starting vertices pulled after the k-th row was returned, k = 1..=rows
    pulls: Vec<usize>,
    /// neighbour pulls after the k-th row
    nbr_pulls: Vec<usize>,
    rows: Vec<String>,
    pulled_before_first_next: (usize, bool, usize, usize),
    after_end: (usize, bool, usize, usize),
}

fn lazy_run(c: &EngineCase) -> Result<LazyObs, String> {
    let ad = Arc::new(CountingAdapter::new(c.dataset.clone()));
    let cnt = ad.c.clone();
    let r = catch_unwind(AssertUnwindSafe(|| {
        let mut it = match interpret_ir(ad.clone(), c.indexed.clone(), c.args.clone()) {
            Ok(it) => it,
            Err(e) => return Err(format!("argument error: {e:?}")),
        };
        let before = cnt.snap();
        let mut pulls = vec![];
        let mut nbr_pulls = vec![];
        let mut rows = vec![];
        loop {
            match it.next() {
                Some(row) => {
                    rows.push(show_row(&row));
                    pulls.push(cnt.starts.get());
                    nbr_pulls.push(cnt.nbrs.get());
                }
                None => break,
            }
        }
        let after_end = cnt.snap();
        Ok(LazyObs { pulls, nbr_pulls, rows, pulled_before_first_next: before, after_end })
    }));
    match r {
        Ok(x) => x,
        Err(e) => Err(format!("panic: {}", panic_text(e))),
    }
}

/// take k rows, drop the iterator; returns (counters before the drop, counters after the drop)
fn drop_run(c: &EngineCase, k: usize) -> Result<((usize, bool, usize, usize), (usize, bool, usize, usize)), String> {
    let ad = Arc::new(CountingAdapter::new(c.dataset.clone()));
    let cnt = ad.c.clone();
    let r = catch_unwind(AssertUnwindSafe(|| {
        let mut it = match interpret_ir(ad.clone(), c.indexed.clone(), c.args.clone()) {
            Ok(it) => it,
            Err(e) => return Err(format!("argument error: {e:?}")),
        };
        for _ in 0..k {
            if it.next().is_none() {
                break;
            }
        }
        let before = cnt.snap();
        drop(it);
        let after = cnt.snap();
        Ok((before, after))
    }));
    match r {
        Ok(x) => x,
        Err(e) => Err(format!("panic: {}", panic_text(e))),
    }
}

fn run_c03(seed: u64, n: usize, oracle_only: bool, out: &mut Out) {
    let mut rng = Rng::new(seed);
    let schema = world::schema();
    let mut stats = new_stats();
    // plus deep recursions (depth 4-7 is beyond what the grammar generates): laziness must hold at every depth
    let deep = (n / 8).max(30);
    for i in 0..(n + deep) {
        let c = if i < n {
            gen_case(&mut rng, &schema, &mut stats, 0)
        } else {
            let mut r2 = rng.fork();
            let root = *r2.pick(&["Thing", "Item", "Box"]);
            let edge = if root == "Thing" { *r2.pick(&["next", "link", "parent"]) } else { *r2.pick(&["up", "next", "peer", "link"]) };
            let d = r2.range(4, 7);
            let text = if r2.chance(1, 2) {
                format!("query {{ {root} {{ id @output(name: \"r\") {edge} @recurse(depth: {d}) {{ id @output }} }} }}")
            } else {
                // string / regex operators whose operand is a TAG of the root vertex (per-context operand values)
                let op = *r2.pick(&["regex", "not_regex", "has_prefix", "has_substring", "not_has_suffix"]);
                let e2 = *r2.pick(&["next", "link"]);
                format!("query {{ {root} {{ id @output(name: \"r\") name @tag(name: \"t\") {e2} {{ name @filter(op: \"{op}\", value: [\"%t\"]) id @output }} }} }}")
            };
            let indexed = match parse(&schema, &text) {
                Ok(ix) => ix,
                Err(_) => continue,
            };
            out.count("family:deep-recursion-or-tag-operand");
            EngineCase {
                dataset: gen_dataset(&mut r2, 10),
                query_text: text,
                indexed,
                args: Arc::new(BTreeMap::new()),
                features: Default::default(),
                var_hints: Default::default(),
            }
        };
        for f in &c.features {
            out.count(&format!("feat:{f}"));
        }
        let input = case_input_json(&c);
        // the model's regex oracle table only covers patterns that come from ARGUMENTS; the family's regex
        // filters take their pattern from a tag, so those worlds are decided by the direct laziness oracle only
        let skip_tie = i >= n && c.query_text.contains("regex");
        let full = run_impl(&c);
        let rows: Vec<String> = match &full {
            Outcome::Rows(r) => r.iter().map(show_row).collect(),
            Outcome::ArgError(_) => {
                out.count("skipped:arg-error");
                continue;
            }
            Outcome::Panic(_) => {
                // panic-freedom is C09; the model must predict the panic too
                out.count("outcome:panic");
                if !oracle_only && !skip_tie {
                    out.add(Case {
                        input,
                        coq: format!("run_c03 {}", case_coq_args(&c)),
                        imp: "PANIC".to_string(),
                        nontrivial: false,
                        key: format!("{i}:{}", c.query_text),
                    });
                }
                continue;
            }
        };
        let q = &c.indexed.ir_query;
        let root_name = q.root_name.to_string();
        let starts = GraphAdapter::new(c.dataset.clone()).starts(&q.root_name, &q.root_parameters);
        // ---- per-start runs (row counts, neighbour pulls, rows)
        let mut counts = vec![];
        let mut single_nbrs = vec![];
        let mut concat = vec![];
        let mut single_ok = true;
        for v in &starts {
            let mut d = c.dataset.clone();
            d.starts.insert(root_name.clone(), vec![*v]);
            let ci = EngineCase {
                dataset: d,
                query_text: c.query_text.clone(),
                indexed: c.indexed.clone(),
                args: c.args.clone(),
                features: Default::default(),
                var_hints: Default::default(),
            };
            match lazy_run(&ci) {
                Ok(obs) => {
                    counts.push(obs.rows.len());
                    single_nbrs.push(obs.after_end.2);
                    concat.extend(obs.rows);
                }
                Err(e) => {
                    single_ok = false;
                    out.oracle_fail(
                        "the full run returned rows but the run restricted to one starting vertex failed",
                        input.clone(),
                        json!({"start": v, "error": e}),
                    );
                    break;
                }
            }
        }
        if !single_ok {
            continue;
        }
        if concat != rows {
            out.oracle_fail(
                "rows of the full run are not the concatenation of the single-start runs",
                input.clone(),
                json!({"full": rows, "concat": concat, "starts": starts}),
            );
        }
        // ---- the lazy run
        let obs = match lazy_run(&c) {
            Ok(o) => o,
            Err(e) => {
                out.oracle_fail("counting run failed although the plain run returned rows", input.clone(), json!({"error": e}));
                continue;
            }
        };
        if obs.rows != rows {
            out.oracle_fail("counting run returned different rows", input.clone(), json!({"plain": rows, "counting": obs.rows}));
        }
        if obs.pulled_before_first_next != (0, false, 0, 0) {
            out.oracle_fail(
                "data was pulled before the first row was requested",
                input.clone(),
                json!({"counters(starts,starts_done,nbrs,ctxs)": format!("{:?}", obs.pulled_before_first_next)}),
            );
        }
        let needs: Vec<usize> = (1..=rows.len()).map(|k| need(&counts, k)).collect();
        for k in 1..=rows.len().min(obs.pulls.len()) {
            if obs.pulls[k - 1] != needs[k - 1] {
                out.oracle_fail(
                    "after the k-th row the number of starting vertices pulled differs from need(k)",
                    input.clone(),
                    json!({"k": k, "pulled": obs.pulls[k - 1], "need": needs[k - 1], "per_start_counts": counts, "starts": starts}),
                );
                break;
            }
            let bound: usize = single_nbrs[..needs[k - 1]].iter().sum();
            if obs.nbr_pulls[k - 1] > bound {
                out.oracle_fail(
                    "after the k-th row more neighbours were pulled than complete runs over the first need(k) starting vertices pull",
                    input.clone(),
                    json!({"k": k, "nbr_pulled": obs.nbr_pulls[k - 1], "bound": bound}),
                );
                break;
            }
        }
        if obs.after_end.0 != starts.len() || !obs.after_end.1 {
            out.oracle_fail(
                "after the final None not all starting vertices were pulled",
                input.clone(),
                json!({"pulled": obs.after_end.0, "starts": starts.len(), "source_exhausted": obs.after_end.1}),
            );
        }
        // ---- early drop, for every k (up to 24 prefixes, evenly spread beyond that)
        let ks: Vec<usize> = if rows.len() <= 24 { (0..=rows.len()).collect() } else { (0..=24).map(|j| j * rows.len() / 24).collect() };
        for k in ks {
            match drop_run(&c, k) {
                Ok((before, after)) => {
                    if before != after {
                        out.oracle_fail(
                            "dropping the result iterator early caused further data access",
                            input.clone(),
                            json!({"k": k, "before": format!("{before:?}"), "after": format!("{after:?}")}),
                        );
                        break;
                    }
                    if before.0 != need(&counts, k) {
                        out.oracle_fail(
                            "take(k) pulled a number of starting vertices different from need(k)",
                            input.clone(),
                            json!({"k": k, "pulled": before.0, "need": need(&counts, k)}),
                        );
                        break;
                    }
                }
                Err(e) => {
                    out.oracle_fail("take(k)+drop run failed", input.clone(), json!({"k": k, "error": e}));
                    break;
                }
            }
        }
        out.count(if rows.is_empty() { "outcome:no-rows" } else { "outcome:rows" });
        out.count_n("rows:total", rows.len() as u64);
        out.count_n("starts:total", starts.len() as u64);
        if counts.iter().any(|x| *x == 0) && counts.iter().any(|x| *x > 1) {
            out.count("shape:some-start-without-rows-and-some-with-several");
        }
        if !oracle_only && !skip_tie {
            let imp = format!("COUNTS:{};NEED:{}", nats(&counts), nats(&obs.pulls));
            out.add(Case {
                input,
                coq: format!("run_c03 {}", case_coq_args(&c)),
                imp,
                nontrivial: rows.len() >= 2 && starts.len() >= 2,
                key: format!("{i}:{}", c.query_text),
            });
        }
    }
    out.count_n("gen:attempts", stats.generated);
    out.count_n("gen:frontend-rejected", stats.frontend_rejected);
}

// ================================================================== C21

#[derive(Clone, Debug)]
struct CallRec {
    kind: char, // S P N C
    ty: String,
    field: String,
    target: String,
    params: Vec<(String, FieldValue)>,
    vid: u64,
    eid: u64,
}

fn show_params(ps: &[(String, FieldValue)]) -> String {
    ps.iter().map(|(k, v)| format!("{}={}", k, show_fv(v))).collect::<Vec<_>>().join(",")
}

impl CallRec {
    /// mirrors Calls.v::show_call
    fn render(&self) -> String {
        match self.kind {
            'S' => format!("S@{}:{}({})", self.vid, self.field, show_params(&self.params)),
            'P' => format!("P@{}:{}.{}", self.vid, self.ty, self.field),
            'N' => format!("N@{}/{}:{}.{}({})", self.vid, self.eid, self.ty, self.field, show_params(&self.params)),
            _ => format!("C@{}:{}>{}", self.vid, self.ty, self.target),
        }
    }
    fn coq(&self) -> String {
        let kind = match self.kind {
            'S' => "KStarting",
            'P' => "KProperty",
            'N' => "KNeighbors",
            _ => "KCoercion",
        };
        let ps: Vec<String> = self.params.iter().map(|(k, v)| format!("({}, {})", cstr(k), cfv(v))).collect();
        format!(
            "(mkCall {} {} {} {} {} {}%N {}%N)",
            kind,
            cstr(&self.ty),
            cstr(&self.field),
            cstr(&self.target),
            clist(&ps),
            self.vid,
            self.eid
        )
    }
}

fn params_vec(p: &EdgeParameters) -> Vec<(String, FieldValue)> {
    p.iter().map(|(k, v)| (k.to_string(), v.clone())).collect()
}

#[derive(Default)]
struct Log {
    calls: Vec<CallRec>,
    violations: Vec<Value>,
    /// number of Some active vertices checked
    vertices_checked: u64,
}

/// textual occurrences of field `name` in the query with their explicit arguments
fn occurrences(text: &str, name: &str) -> Vec<BTreeMap<String, FieldValue>> {
    let re = regex::Regex::new(&format!(r"(?:^|[\s{{]){}\s*(?:\(([^)]*)\))?\s*[@{{]", regex::escape(name))).unwrap();
    let mut res = vec![];
    for cap in re.captures_iter(text) {
        let mut m = BTreeMap::new();
        if let Some(args) = cap.get(1) {
            for part in args.as_str().split(',') {
                let mut kv = part.splitn(2, ':');
                let k = kv.next().unwrap_or("").trim();
                let v = kv.next().unwrap_or("").trim();
                if k.is_empty() {
                    continue;
                }
                let val = if v == "null" {
                    FieldValue::Null
                } else if let Ok(i) = v.parse::<i64>() {
                    FieldValue::Int64(i)
                } else {
                    FieldValue::String(Arc::from(v))
                };
                m.insert(k.to_string(), val);
            }
        }
        res.push(m);
    }
    res
}

fn default_value(p: &ParamDef) -> Option<FieldValue> {
    match p.default {
        Some(d) => Some(match d.parse::<i64>() {
            Ok(i) => FieldValue::Int64(i),
            Err(_) => FieldValue::String(Arc::from(d)),
        }),
        None => {
            if p.ty.ends_with('!') {
                None
            } else {
                Some(FieldValue::Null)
            }
        }
    }
}

/// make_edge_parameters, re-read from the schema tables: explicit value, else default, else null
fn completion(decl: &[ParamDef], explicit: &BTreeMap<String, FieldValue>) -> Option<Vec<(String, FieldValue)>> {
    let mut m = BTreeMap::new();
    for p in decl {
        let v = match explicit.get(p.name) {
            Some(v) => v.clone(),
            None => default_value(p)?,
        };
        m.insert(p.name.to_string(), v);
    }
    if explicit.keys().any(|k| !decl.iter().any(|p| p.name == k)) {
        return None;
    }
    Some(m.into_iter().collect())
}

#[derive(Clone)]
struct ContractAdapter {
    inner: GraphAdapter,
    log: Rc<RefCell<Log>>,
    query_text: Rc<String>,
}

impl ContractAdapter {
    fn new(d: Dataset, query_text: &str) -> Self {
        ContractAdapter { inner: GraphAdapter::new(d), log: Rc::new(RefCell::new(Log::default())), query_text: Rc::new(query_text.to_string()) }
    }

    fn violation(&self, what: &str, rec: &CallRec, detail: Value) {
        self.log.borrow_mut().violations.push(json!({"what": what, "call": rec.render(), "detail": detail}));
    }

    fn check_params(&self, rec: &CallRec, decl: &[ParamDef]) {
        let got: BTreeSet<&str> = rec.params.iter().map(|(k, _)| k.as_str()).collect();
        let want: BTreeSet<&str> = decl.iter().map(|p| p.name).collect();
        if got != want {
            self.violation(
                "edge parameters are not exactly the declared ones",
                rec,
                json!({"declared": want.iter().collect::<Vec<_>>(), "passed": got.iter().collect::<Vec<_>>()}),
            );
            return;
        }
        for (k, v) in &rec.params {
            let p = decl.iter().find(|p| p.name == k).unwrap();
            let t = Type::parse(p.ty).expect("declared parameter type parses");
            let ok = catch_unwind(AssertUnwindSafe(|| t.is_valid_value(v))).unwrap_or(false);
            if !ok {
                self.violation("edge parameter value is not valid for its declared type", rec, json!({"parameter": k, "declared": p.ty, "value": show_fv(v)}));
            }
        }
        // explicit, default, or null: the map must be the completion of some occurrence in the query
        let occ = occurrences(&self.query_text, &rec.field);
        let want_render = show_params(&rec.params);
        let found = occ.iter().any(|ex| completion(decl, ex).map(|c| show_params(&c) == want_render).unwrap_or(false));
        if !found {
            let cands: Vec<String> = occ.iter().filter_map(|ex| completion(decl, ex)).map(|c| show_params(&c)).collect();
            self.violation(
                "edge parameters are not the completion (explicit / default / null) of any occurrence of the edge in the query",
                rec,
                json!({"passed": want_render, "completions_of_occurrences": cands}),
            );
        }
    }

    fn check_type(&self, rec: &CallRec) -> Option<TypeDef> {
        match type_defs().into_iter().find(|t| t.name == rec.ty) {
            Some(t) => Some(t),
            None => {
                self.violation("type_name is not a type of the schema", rec, json!({}));
                None
            }
        }
    }

    /// the static clauses of the contract, against the world schema tables
    fn check_static(&self, rec: &CallRec) {
        match rec.kind {
            'S' => match entry_defs().into_iter().find(|e| e.name == rec.field) {
                Some(en) => self.check_params(rec, &en.params),
                None => self.violation("starting edge is not an entry point of the schema", rec, json!({})),
            },
            'P' => {
                if let Some(t) = self.check_type(rec) {
                    if rec.field != "__typename" && !t.props.iter().any(|p| p.name == rec.field) {
                        self.violation("property is not defined on the named type", rec, json!({}));
                    }
                }
            }
            'N' => {
                if let Some(t) = self.check_type(rec) {
                    match t.edges.iter().find(|e| e.name == rec.field) {
                        Some(ed) => self.check_params(rec, &ed.params),
                        None => self.violation("edge is not defined on the named type", rec, json!({})),
                    }
                }
            }
            _ => {
                if self.check_type(rec).is_some() {
                    if !type_defs().iter().any(|t| t.name == rec.target) {
                        self.violation("coercion target is not a type of the schema", rec, json!({}));
                    } else if !subtypes_of(&rec.ty).contains(&rec.target.as_str()) {
                        self.violation("coercion target is not a subtype of the named type", rec, json!({"subtypes": subtypes_of(&rec.ty)}));
                    }
                }
            }
        }
    }

    fn record(&self, rec: CallRec) -> CallRec {
        self.check_static(&rec);
        self.log.borrow_mut().calls.push(rec.clone());
        rec
    }

    /// the dynamic clause: every Some active vertex flowing into the call is an instance of type_name
    fn guard<V: AsVertex<u64> + 'static>(&self, contexts: ContextIterator<'static, V>, rec: CallRec) -> ContextIterator<'static, V> {
        let me = self.clone();
        Box::new(contexts.map(move |ctx| {
            if let Some(v) = ctx.active_vertex::<u64>() {
                me.log.borrow_mut().vertices_checked += 1;
                let conc = me.inner.d.vtype.get(v).copied().unwrap_or("?");
                if !instances_of(&rec.ty).contains(&conc) {
                    me.violation(
                        "an active vertex passed to the adapter is not an instance of the named type",
                        &rec,
                        json!({"vertex": v, "concrete_type": conc, "instances_of_type_name": instances_of(&rec.ty)}),
                    );
                }
            }
            ctx
        }))
    }
}

impl Adapter<'static> for ContractAdapter {
    type Vertex = u64;

    fn resolve_starting_vertices(
        &self,
        edge_name: &Arc<str>,
        parameters: &EdgeParameters,
        resolve_info: &ResolveInfo,
    ) -> VertexIterator<'static, Self::Vertex> {
        self.record(CallRec {
            kind: 'S',
            ty: String::new(),
            field: edge_name.to_string(),
            target: String::new(),
            params: params_vec(parameters),
            vid: vid_n(resolve_info.vid()),
            eid: 0,
        });
        self.inner.resolve_starting_vertices(edge_name, parameters, resolve_info)
    }

    fn resolve_property<V: AsVertex<Self::Vertex> + 'static>(
        &self,
        contexts: ContextIterator<'static, V>,
        type_name: &Arc<str>,
        property_name: &Arc<str>,
        resolve_info: &ResolveInfo,
    ) -> ContextOutcomeIterator<'static, V, FieldValue> {
        let rec = self.record(CallRec {
            kind: 'P',
            ty: type_name.to_string(),
            field: property_name.to_string(),
            target: String::new(),
            params: vec![],
            vid: vid_n(resolve_info.vid()),
            eid: 0,
        });
        let guarded = self.guard(contexts, rec);
        self.inner.resolve_property(guarded, type_name, property_name, resolve_info)
    }

    fn resolve_neighbors<V: AsVertex<Self::Vertex> + 'static>(
        &self,
        contexts: ContextIterator<'static, V>,
        type_name: &Arc<str>,
        edge_name: &Arc<str>,
        parameters: &EdgeParameters,
        resolve_info: &ResolveEdgeInfo,
    ) -> ContextOutcomeIterator<'static, V, VertexIterator<'static, Self::Vertex>> {
        let rec = self.record(CallRec {
            kind: 'N',
            ty: type_name.to_string(),
            field: edge_name.to_string(),
            target: String::new(),
            params: params_vec(parameters),
            vid: vid_n(resolve_info.origin_vid()),
            eid: eid_n(resolve_info.eid()),
        });
        let guarded = self.guard(contexts, rec);
        self.inner.resolve_neighbors(guarded, type_name, edge_name, parameters, resolve_info)
    }

    fn resolve_coercion<V: AsVertex<Self::Vertex> + 'static>(
        &self,
        contexts: ContextIterator<'static, V>,
        type_name: &Arc<str>,
        coerce_to_type: &Arc<str>,
        resolve_info: &ResolveInfo,
    ) -> ContextOutcomeIterator<'static, V, bool> {
        let rec = self.record(CallRec {
            kind: 'C',
            ty: type_name.to_string(),
            field: String::new(),
            target: coerce_to_type.to_string(),
            params: vec![],
            vid: vid_n(resolve_info.vid()),
            eid: 0,
        });
        let guarded = self.guard(contexts, rec);
        self.inner.resolve_coercion(guarded, type_name, coerce_to_type, resolve_info)
    }
}

/// the world schema as a Calls.v `schema` term
fn world_schema_coq() -> String {
    let cty = |s: &str| irprint::cty(&Type::parse(s).expect("type text parses"));
    let pdecl = |ps: &[ParamDef]| -> String {
        let items: Vec<String> = ps.iter().map(|p| format!("({}, {})", cstr(p.name), cty(p.ty))).collect();
        clist(&items)
    };
    let tds = type_defs();
    let types: Vec<String> = tds.iter().map(|t| cstr(t.name)).collect();
    let subs: Vec<String> = tds
        .iter()
        .map(|t| {
            let l: Vec<String> = subtypes_of(t.name).iter().map(|x| cstr(x)).collect();
            format!("({}, {})", cstr(t.name), clist(&l))
        })
        .collect();
    let props: Vec<String> = tds
        .iter()
        .map(|t| {
            let l: Vec<String> = t.props.iter().map(|p| format!("({}, {})", cstr(p.name), cty(p.ty))).collect();
            format!("({}, {})", cstr(t.name), clist(&l))
        })
        .collect();
    let edges: Vec<String> = tds
        .iter()
        .map(|t| {
            let l: Vec<String> = t.edges.iter().map(|e| format!("(mkED {} {} {})", cstr(e.name), cstr(e.target), pdecl(&e.params))).collect();
            format!("({}, {})", cstr(t.name), clist(&l))
        })
        .collect();
    let entries: Vec<String> = entry_defs().iter().map(|e| format!("(mkED {} {} {})", cstr(e.name), cstr(e.target), pdecl(&e.params))).collect();
    format!("(mkSchema {} {} {} {} {})", clist(&types), clist(&subs), clist(&props), clist(&edges), clist(&entries))
}

struct Observed {
    static_calls: Vec<CallRec>,
    all_calls: Vec<CallRec>,
    violations: Vec<Value>,
    vertices_checked: u64,
    outcome: String, // ROWS / ARGERR / PANIC
    rows: usize,
}

fn contract_run(dataset: &Dataset, query_text: &str, indexed: Arc<trustfall_core::ir::IndexedQuery>, args: Arc<BTreeMap<Arc<str>, FieldValue>>) -> Observed {
    let ad = Arc::new(ContractAdapter::new(dataset.clone(), query_text));
    let log = ad.log.clone();
    let mut static_n = 0usize;
    let mut rows = 0usize;
    let r = catch_unwind(AssertUnwindSafe(|| match interpret_ir(ad.clone(), indexed, args) {
        Ok(it) => {
            static_n = log.borrow().calls.len();
            for _row in it {
                rows += 1;
            }
            "ROWS"
        }
        Err(_) => "ARGERR",
    }));
    let outcome = match r {
        Ok(s) => s.to_string(),
        Err(_) => "PANIC".to_string(),
    };
    let l = log.borrow();
    let static_n = static_n.min(l.calls.len());
    Observed {
        static_calls: l.calls[..static_n].to_vec(),
        all_calls: l.calls.clone(),
        violations: l.violations.clone(),
        vertices_checked: l.vertices_checked,
        outcome,
        rows,
    }
}

fn call_set(cs: &[CallRec]) -> String {
    let s: BTreeSet<String> = cs.iter().map(|c| c.render()).collect();
    s.into_iter().collect::<Vec<_>>().join(";")
}

fn has_fold(c: &trustfall_core::ir::IRQueryComponent) -> bool {
    !c.folds.is_empty()
}

/// fixed probes for parameter completion and the recursion call shapes
fn fixed_probes(schema: &Schema, out: &mut Out) {
    let probes: Vec<(&str, Vec<&str>)> = vec![
        ("query { Thing { next { id @output } } }", vec!["S@1:Thing(hi=n,lo=n)", "N@1/1:Thing.next(hi=i6,lo=n)", "P@2:Thing.id"]),
        ("query { Item { up { id @output } } }", vec!["S@1:Item(hi=n,lo=i0)", "N@1/1:Item.up(hi=i500)"]),
        ("query { Box { inner { id @output } } }", vec!["S@1:Box()", "N@1/1:Box.inner(lo=i0)"]),
        ("query { Leaf { id @output } }", vec!["S@1:Leaf(hi=i1000)", "P@1:Leaf.id"]),
        ("query { Thing(lo: 2) { next(lo: null, hi: 3) { id @output } } }", vec!["S@1:Thing(hi=n,lo=i2)", "N@1/1:Thing.next(hi=i3,lo=n)"]),
        ("query { Item(hi: 7, lo: null) { id @output } }", vec!["S@1:Item(hi=i7,lo=n)"]),
        // implicit coercion of @recurse: Box.up leads to Thing, which has no `up`; its origin is Item
        ("query { Box { up @recurse(depth: 2) { id @output } } }", vec!["N@1/1:Box.up(hi=i500)", "C@1:Thing>Item", "N@1/1:Item.up(hi=i500)"]),
        ("query { Box { up @recurse(depth: 1) { id @output } } }", vec!["N@1/1:Box.up(hi=i500)"]),
        // recursion without coercion continues at the destination type
        ("query { Leaf { peer @recurse(depth: 3) { id @output } } }", vec!["N@1/1:Leaf.peer()", "N@1/1:Item.peer()"]),
        ("query { Thing { ... on Item { weight @output __typename @output } } }", vec!["C@1:Thing>Item", "P@1:Item.weight", "P@1:Item.__typename"]),
    ];
    let mut rng = Rng::new(7);
    let dataset = gen_dataset(&mut rng, 8);
    for (text, expect) in probes {
        out.count("probe:fixed");
        let indexed = match parse(schema, text) {
            Ok(i) => i,
            Err(e) => {
                out.oracle_fail("fixed probe query was rejected by the frontend", json!({"query": text}), json!({"error": format!("{e:?}")}));
                continue;
            }
        };
        let obs = contract_run(&dataset, text, indexed, Arc::new(BTreeMap::new()));
        let input = json!({"query": text, "dataset": dataset.to_json()});
        for v in &obs.violations {
            out.oracle_fail("adapter contract violated (fixed probe)", input.clone(), v.clone());
        }
        let seen: BTreeSet<String> = obs.all_calls.iter().map(|c| c.render()).collect();
        for e in expect {
            if !seen.contains(e) {
                out.oracle_fail("fixed probe: an expected adapter call was not made", input.clone(), json!({"expected": e, "observed": seen.iter().collect::<Vec<_>>()}));
            }
        }
        if obs.outcome == "PANIC" {
            out.oracle_fail("fixed probe panicked", input, json!({}));
        }
    }
}

/// An adapter over an arbitrary schema with no data: it only records the calls (all calls of a
/// fold-free query are made while the pipeline is built, whatever the data).
struct NullLogAdapter {
    calls: Rc<RefCell<Vec<CallRec>>>,
}

impl Adapter<'static> for NullLogAdapter {
    type Vertex = u64;
    fn resolve_starting_vertices(&self, edge_name: &Arc<str>, parameters: &EdgeParameters, ri: &ResolveInfo) -> VertexIterator<'static, u64> {
        self.calls.borrow_mut().push(CallRec { kind: 'S', ty: String::new(), field: edge_name.to_string(), target: String::new(), params: params_vec(parameters), vid: vid_n(ri.vid()), eid: 0 });
        Box::new(std::iter::empty())
    }
    fn resolve_property<V: AsVertex<u64> + 'static>(&self, contexts: ContextIterator<'static, V>, type_name: &Arc<str>, property_name: &Arc<str>, ri: &ResolveInfo) -> ContextOutcomeIterator<'static, V, FieldValue> {
        self.calls.borrow_mut().push(CallRec { kind: 'P', ty: type_name.to_string(), field: property_name.to_string(), target: String::new(), params: vec![], vid: vid_n(ri.vid()), eid: 0 });
        Box::new(contexts.map(|c| (c, FieldValue::Null)))
    }
    fn resolve_neighbors<V: AsVertex<u64> + 'static>(&self, contexts: ContextIterator<'static, V>, type_name: &Arc<str>, edge_name: &Arc<str>, parameters: &EdgeParameters, ri: &ResolveEdgeInfo) -> ContextOutcomeIterator<'static, V, VertexIterator<'static, u64>> {
        self.calls.borrow_mut().push(CallRec { kind: 'N', ty: type_name.to_string(), field: edge_name.to_string(), target: String::new(), params: params_vec(parameters), vid: vid_n(ri.origin_vid()), eid: eid_n(ri.eid()) });
        Box::new(contexts.map(|c| {
            let it: VertexIterator<'static, u64> = Box::new(std::iter::empty());
            (c, it)
        }))
    }
    fn resolve_coercion<V: AsVertex<u64> + 'static>(&self, contexts: ContextIterator<'static, V>, type_name: &Arc<str>, coerce_to_type: &Arc<str>, ri: &ResolveInfo) -> ContextOutcomeIterator<'static, V, bool> {
        self.calls.borrow_mut().push(CallRec { kind: 'C', ty: type_name.to_string(), field: String::new(), target: coerce_to_type.to_string(), params: vec![], vid: vid_n(ri.vid()), eid: 0 });
        Box::new(contexts.map(|c| (c, false)))
    }
}

/// Probe schema with SIBLING interfaces: `A implements X & D`, the edge `e: [D!]` is declared on X
/// (and inherited by A), D has no `e`.  `A { e @recurse(depth: 2) }` needs the implicit coercion
/// D -> X for the second hop, but X is not a subtype of D.
const SIBLING_SCHEMA_BODY: &str = "
type RootSchemaQuery {
  A: [A!]
}
interface X {
  xid: Int!
  e: [D!]
}
interface D {
  did: Int!
}
type A implements X & D {
  xid: Int!
  did: Int!
  e: [D!]
}
type B implements D {
  did: Int!
}
";

/// the sibling schema as a Calls.v `schema`
const SIBLING_SCHEMA_COQ: &str = "(mkSchema [\"X\"; \"D\"; \"A\"; \"B\"] [(\"X\", [\"X\"; \"A\"]); (\"D\", [\"D\"; \"A\"; \"B\"]); (\"A\", [\"A\"]); (\"B\", [\"B\"])] [(\"X\", [(\"xid\", (mkTy \"Int\" 1%N))]); (\"D\", [(\"did\", (mkTy \"Int\" 1%N))]); (\"A\", [(\"xid\", (mkTy \"Int\" 1%N)); (\"did\", (mkTy \"Int\" 1%N))]); (\"B\", [(\"did\", (mkTy \"Int\" 1%N))])] [(\"X\", [(mkED \"e\" \"D\" [])]); (\"D\", []); (\"A\", [(mkED \"e\" \"D\" [])]); (\"B\", [])] [(mkED \"A\" \"A\" [])])";

fn sibling_probe(out: &mut Out, oracle_only: bool) {
    out.count("probe:sibling-interfaces");
    let text = format!("schema {{\n  query: RootSchemaQuery\n}}\n{}\n{}", Schema::ALL_DIRECTIVE_DEFINITIONS, SIBLING_SCHEMA_BODY);
    let schema = match catch_unwind(AssertUnwindSafe(|| Schema::parse(&text))) {
        Ok(Ok(s)) => s,
        other => {
            out.count("probe:sibling-interfaces:schema-rejected");
            out.extra.insert("sibling_probe".into(), json!({"schema": format!("rejected: {:?}", other.map(|r| r.map(|_| ()).map_err(|e| format!("{e:?}"))))}));
            return;
        }
    };
    let query = "query { A { e @recurse(depth: 2) { did @output } } }";
    let indexed = match catch_unwind(AssertUnwindSafe(|| parse(&schema, query))) {
        Ok(Ok(i)) => i,
        Ok(Err(e)) => {
            out.count("probe:sibling-interfaces:query-rejected");
            out.extra.insert("sibling_probe".into(), json!({"query": query, "frontend": format!("{e:?}")}));
            return;
        }
        Err(_) => {
            out.count("probe:sibling-interfaces:frontend-panicked");
            return;
        }
    };
    let calls = Rc::new(RefCell::new(vec![]));
    let ad = Arc::new(NullLogAdapter { calls: calls.clone() });
    let ir_coq = irprint::query(&indexed.ir_query);
    let r = catch_unwind(AssertUnwindSafe(|| match interpret_ir(ad, indexed, Arc::new(BTreeMap::new())) {
        Ok(it) => it.count(),
        Err(_) => 0,
    }));
    let seen: Vec<String> = calls.borrow().iter().map(|c| c.render()).collect();
    out.extra.insert("sibling_probe".into(), json!({"query": query, "calls": seen, "panicked": r.is_err()}));
    if !oracle_only && r.is_ok() {
        // the model reproduces the offending call and says the query is NOT typed against the schema
        let items: Vec<String> = calls.borrow().iter().map(|c| c.coq()).collect();
        let set = call_set(&calls.borrow());
        out.add(Case {
            input: json!({"schema": SIBLING_SCHEMA_BODY, "query": query}),
            coq: format!("run_c21 {} {} {}", SIBLING_SCHEMA_COQ, ir_coq, clist(&items)),
            imp: format!("TYPED:F|CONTRACT:F|STATIC:{set}|OBSERVED:{set}"),
            nontrivial: true,
            key: "sibling-probe".to_string(),
        });
    }
    let subtypes = |t: &str| -> Vec<&'static str> {
        match t {
            "X" => vec!["X", "A"],
            "D" => vec!["D", "A", "B"],
            "A" => vec!["A"],
            "B" => vec!["B"],
            _ => vec![],
        }
    };
    for c in calls.borrow().iter() {
        if c.kind == 'C' && !subtypes(&c.ty).contains(&c.target.as_str()) {
            out.oracle_fail_class(
                "K-recurse-coercion-to-sibling-interface",
                "resolve_coercion is called with a coerce_to_type that is not a subtype of type_name",
                json!({"schema": SIBLING_SCHEMA_BODY, "query": query}),
                json!({"call": c.render(), "subtypes_of_type_name": subtypes(&c.ty), "all_calls": seen}),
            );
        }
    }
}

fn run_c21(seed: u64, n: usize, oracle_only: bool, out: &mut Out) {
    let mut rng = Rng::new(seed);
    let schema = world::schema();
    let mut stats = new_stats();
    fixed_probes(&schema, out);
    sibling_probe(out, oracle_only);
    // a targeted family next to the grammar-generated queries: deep @recurse through the edge that
    // needs the implicit coercion (Item.up leads to Thing, which has no `up`), where vertices that
    // are not Items appear at depth >= 2 and must not be handed to resolve_neighbors("Item", "up")
    let deep_recursions = (n / 4).max(40);
    for i in 0..(n + deep_recursions) {
        let c = if i < n {
            gen_case(&mut rng, &schema, &mut stats, 0)
        } else {
            let mut r2 = rng.fork();
            let root = *r2.pick(&["Item", "Box", "Leaf"]);
            let d = r2.range(2, 5);
            let hi = *r2.pick(&["", "(hi: 1000)", "(hi: 6)"]);
            let inner = match r2.range(0, 3) {
                0 => "id @output".to_string(),
                1 => "id @output next @optional { id @output(name: \"n\") }".to_string(),
                2 => format!("... on Item {{ id @output up{hi} @recurse(depth: {}) {{ id @output(name: \"deep\") }} }}", r2.range(2, 4)),
                _ => "id @output link @fold { id @output(name: \"l\") }".to_string(),
            };
            let text = format!("query {{ {root} {{ id @output(name: \"r\") up{hi} @recurse(depth: {d}) {{ {inner} }} }} }}");
            let indexed = match parse(&schema, &text) {
                Ok(ix) => ix,
                Err(e) => {
                    out.oracle_fail("deep-recursion template was rejected by the frontend", json!({"query": text}), json!({"error": format!("{e:?}")}));
                    continue;
                }
            };
            out.count("family:deep-implicit-coercion-recursion");
            EngineCase {
                dataset: gen_dataset(&mut r2, 9),
                query_text: text,
                indexed,
                args: Arc::new(BTreeMap::new()),
                features: Default::default(),
                var_hints: Default::default(),
            }
        };
        for f in &c.features {
            out.count(&format!("feat:{f}"));
        }
        let input = case_input_json(&c);
        let obs = contract_run(&c.dataset, &c.query_text, c.indexed.clone(), c.args.clone());
        out.count(&format!("outcome:{}", obs.outcome));
        out.count_n("calls:total", obs.all_calls.len() as u64);
        out.count_n("active-vertices-checked", obs.vertices_checked);
        out.count_n("rows:total", obs.rows as u64);
        for k in ['S', 'P', 'N', 'C'] {
            out.count_n(&format!("calls:{k}"), obs.all_calls.iter().filter(|c| c.kind == k).count() as u64);
        }
        for v in &obs.violations {
            out.oracle_fail("adapter contract violated", input.clone(), v.clone());
        }
        if obs.outcome == "ARGERR" {
            continue;
        }
        let fold_free = !has_fold(&c.indexed.ir_query.root_component);
        if obs.outcome == "ROWS" && fold_free && call_set(&obs.static_calls) != call_set(&obs.all_calls) {
            out.oracle_fail(
                "a fold-free query made adapter calls after the pipeline was built",
                input.clone(),
                json!({"static": call_set(&obs.static_calls), "all": call_set(&obs.all_calls)}),
            );
        }
        if obs.outcome == "PANIC" {
            // panic-freedom is C09; the calls made up to the panic were still checked above
            continue;
        }
        if !oracle_only {
            // distinct observed calls, as a Calls.v list
            let mut seen = BTreeSet::new();
            let mut items = vec![];
            for r in &obs.all_calls {
                if seen.insert(r.render()) {
                    items.push(r.coq());
                }
            }
            let imp = format!("CONFORMS:T|TYPED:T|CONTRACT:T|STATIC:{}|OBSERVED:{}", call_set(&obs.static_calls), call_set(&obs.all_calls));
            out.add(Case {
                input,
                coq: format!("run_c21d ws {} {} {}", c.dataset.to_coq(), irprint::query(&c.indexed.ir_query), clist(&items)),
                imp,
                nontrivial: seen.len() >= 4,
                key: format!("{i}:{}", c.query_text),
            });
            out.count(if fold_free { "tie:set-equality(fold-free)" } else { "tie:subset(with-fold)" });
        }
    }
    out.count_n("gen:attempts", stats.generated);
    out.count_n("gen:frontend-rejected", stats.frontend_rejected);
}

fn main() {
    let argv: Vec<String> = std::env::args().collect();
    if argv.len() < 2 {
        eprintln!("usage: tfh_calls <c03|c21> [--seed S] [--n N] [--out DIR] [--oracle-only]");
        std::process::exit(2);
    }
    let args = parse_args(&argv[2..]);
    std::panic::set_hook(Box::new(|_| {}));
    let oracle_only = args.rest.iter().any(|x| x == "--oracle-only");
    match argv[1].as_str() {
        "c03" => {
            if args.rest.iter().any(|x| x == "--selftest-eager") {
                SELFTEST_EAGER.store(true, std::sync::atomic::Ordering::Relaxed);
            }
            let mut o = Out::new(&args.out, "From TF Require Import Lazy.", 40);
            run_c03(args.seed, args.n, oracle_only, &mut o);
            o.finish();
        }
        "c21" => {
            let imports = format!("From TF Require Import Calls.\nOpen Scope string_scope.\nDefinition ws : schema := {}.", world_schema_coq());
            let mut o = Out::new(&args.out, &imports, 40);
            run_c21(args.seed, args.n, oracle_only, &mut o);
            o.finish();
        }
        other => {
            eprintln!("unknown subcommand {other}");
            std::process::exit(2);
        }
    }
}
