//! tfh_det — runtime halves of C14 (determinism across processes / hash seeds) and C24 (thread safety).
//!
//! usage: tfh_det c14 --seed S --n N --out DIR [--k K] [--oracle-only]
//!        tfh_det c14child <cases.jsonl> <results.jsonl>
//!        tfh_det c24 --seed S --n N --out DIR [--threads T] [--rounds R] [--oracle-only]
//!        tfh_det c24child <cases.jsonl> <results.json> <threads>
//!
//! C14.  The parent generates cases and writes their DESCRIPTION (schema text, query text, tagged
//! arguments, dataset) to a file; then it spawns `tfh_det c14child` in K SEPARATE PROCESSES per batch
//! (std::process::Command on current_exe(); every process has fresh RandomState keys, and inside a
//! process every HashMap gets its own keys).  A child re-parses the schema text, re-compiles the query
//! text with the real frontend, serialises the IR (serde_json) or the error (Debug), executes with
//! GraphAdapter wrapped in a call-recording adapter, and does all of that TWICE.  The parent compares
//! the 2K renderings of every case byte for byte.  Any difference => oracle_fail with the case.
//! Case kinds: `world` (generated world, accepted query), `query` (malformed query: frontend error
//! incl. multi-error order; the repo's frontend_errors / parse_errors / valid_queries / execution_errors
//! corpora are compiled too), `schema` (schema documents: the repo's schema_errors and valid_schemas
//! corpora, the test schemas, and generated many-error documents: InvalidSchemaError Debug text),
//! `introspect` (SchemaAdapter queries: finding F14, rows compared as multisets; order differences are
//! recorded as an observation).
//!
//! C24.  (i) `send_sync_assertions`: compile-time `T: Send + Sync` for the shared types — if one of them
//! stops being Send + Sync this binary no longer BUILDS and ./check reports the broken build.
//! (ii) per round, a child process is started COLD (no static initialised yet) and T threads race:
//! phase A every thread parses the schema text itself and compiles/executes every case; phase B all
//! threads share one Arc<Schema>, Arc<IndexedQuery>s compiled once, Arc<Dataset>s and argument maps;
//! phase C compiled queries produced by one thread are executed by another (Send).  Everything must
//! equal the sequential results computed by the parent process.
#[path = "../coq.rs"]
mod coq;
#[path = "../engine.rs"]
mod engine;
#[path = "../irprint.rs"]
mod irprint;
#[path = "../out.rs"]
mod out;
#[path = "../qgen.rs"]
mod qgen;
#[path = "../rng.rs"]
mod rng;
#[path = "../show.rs"]
mod show;
#[path = "../world.rs"]
mod world;

use rng::Rng;
use serde_json::{json, Map, Value};
use show::show_fv;
use std::cell::RefCell;
use std::collections::{BTreeMap, BTreeSet};
use std::panic::{catch_unwind, AssertUnwindSafe};
use std::path::{Path, PathBuf};
use std::rc::Rc;
use std::sync::{Arc, Barrier};
use trustfall_core::frontend::parse;
use trustfall_core::interpreter::execution::interpret_ir;
use trustfall_core::interpreter::{
    Adapter, AsVertex, ContextIterator, ContextOutcomeIterator, ResolveEdgeInfo, ResolveInfo, VertexInfo,
    VertexIterator,
};
use trustfall_core::ir::{EdgeParameters, FieldValue, IndexedQuery};
use trustfall_core::schema::{Schema, SchemaAdapter};
use world::{Dataset, GraphAdapter};

// ------------------------------------------------------------------ (i) compile-time assertions (C24)
#[allow(dead_code)]
mod send_sync_assertions {
    use std::sync::Arc;
    fn assert_send_sync<T: Send + Sync>() {}
    pub fn all() {
        assert_send_sync::<trustfall_core::schema::Schema>();
        assert_send_sync::<trustfall_core::ir::IndexedQuery>();
        assert_send_sync::<trustfall_core::ir::IRQuery>();
        assert_send_sync::<trustfall_core::ir::Type>();
        assert_send_sync::<trustfall_core::ir::FieldValue>();
        assert_send_sync::<trustfall_core::ir::EdgeParameters>();
        assert_send_sync::<Arc<trustfall_core::ir::IndexedQuery>>();
        assert_send_sync::<Arc<trustfall_core::schema::Schema>>();
        assert_send_sync::<trustfall_core::interpreter::InterpretedQuery>();
    }
}

pub struct Args {
    pub seed: u64,
    pub n: usize,
    pub out: PathBuf,
    pub rest: Vec<String>,
}

fn parse_args(v: &[String]) -> Args {
    let mut a = Args { seed: 0, n: 100, out: PathBuf::from("."), rest: vec![] };
    let mut i = 0;
    while i < v.len() {
        match v[i].as_str() {
            "--seed" => { a.seed = v[i + 1].parse().unwrap(); i += 2; }
            "--n" => { a.n = v[i + 1].parse().unwrap(); i += 2; }
            "--out" => { a.out = PathBuf::from(&v[i + 1]); i += 2; }
            _ => { a.rest.push(v[i].clone()); i += 1; }
        }
    }
    a
}

fn opt_usize(rest: &[String], name: &str, default: usize) -> usize {
    rest.iter().position(|x| x == name).and_then(|i| rest.get(i + 1)).and_then(|x| x.parse().ok()).unwrap_or(default)
}

fn panic_msg(e: Box<dyn std::any::Any + Send>) -> String {
    if let Some(s) = e.downcast_ref::<&str>() {
        s.to_string()
    } else if let Some(s) = e.downcast_ref::<String>() {
        s.clone()
    } else {
        "<non-string panic>".to_string()
    }
}

fn fnv(s: &str) -> u64 {
    let mut h: u64 = 0xcbf2_9ce4_8422_2325;
    for b in s.as_bytes() {
        h ^= *b as u64;
        h = h.wrapping_mul(0x0000_0100_0000_01b3);
    }
    h
}

// ------------------------------------------------------------------ tagged JSON for values / datasets
fn jfv(v: &FieldValue) -> Value {
    match v {
        FieldValue::Null => Value::Null,
        FieldValue::Int64(i) => json!({"i": i.to_string()}),
        FieldValue::Uint64(u) => json!({"u": u.to_string()}),
        FieldValue::Float64(f) => json!({"f": f.to_bits().to_string()}),
        FieldValue::String(s) => json!({"s": s.to_string()}),
        FieldValue::Boolean(b) => json!({"b": b}),
        FieldValue::Enum(s) => json!({"e": s.to_string()}),
        FieldValue::List(l) => json!({"l": l.iter().map(jfv).collect::<Vec<_>>()}),
        _ => json!({"unknown": true}),
    }
}

fn unjfv(v: &Value) -> FieldValue {
    if v.is_null() {
        return FieldValue::Null;
    }
    let o = v.as_object().expect("tagged value");
    if let Some(x) = o.get("i") {
        FieldValue::Int64(x.as_str().unwrap().parse().unwrap())
    } else if let Some(x) = o.get("u") {
        FieldValue::Uint64(x.as_str().unwrap().parse().unwrap())
    } else if let Some(x) = o.get("f") {
        FieldValue::Float64(f64::from_bits(x.as_str().unwrap().parse().unwrap()))
    } else if let Some(x) = o.get("s") {
        FieldValue::String(Arc::from(x.as_str().unwrap()))
    } else if let Some(x) = o.get("b") {
        FieldValue::Boolean(x.as_bool().unwrap())
    } else if let Some(x) = o.get("e") {
        FieldValue::Enum(Arc::from(x.as_str().unwrap()))
    } else if let Some(x) = o.get("l") {
        FieldValue::List(x.as_array().unwrap().iter().map(unjfv).collect::<Vec<_>>().into())
    } else {
        panic!("bad tagged value {v}")
    }
}

fn dataset_json(d: &Dataset) -> Value {
    let vtype: BTreeMap<String, String> = d.vtype.iter().map(|(k, v)| (k.to_string(), v.to_string())).collect();
    let props: BTreeMap<String, BTreeMap<String, Value>> =
        d.props.iter().map(|(k, pm)| (k.to_string(), pm.iter().map(|(n, x)| (n.clone(), jfv(x))).collect())).collect();
    let edges: BTreeMap<String, BTreeMap<String, Vec<u64>>> = d.edges.iter().map(|(k, em)| (k.to_string(), em.clone())).collect();
    json!({"vtype": vtype, "props": props, "edges": edges, "starts": d.starts})
}

fn static_type_name(s: &str) -> &'static str {
    world::type_defs().into_iter().map(|t| t.name).find(|n| *n == s).expect("unknown type name in dataset")
}

fn dataset_unjson(v: &Value) -> Dataset {
    let mut d = Dataset::default();
    for (k, t) in v["vtype"].as_object().unwrap() {
        d.vtype.insert(k.parse().unwrap(), static_type_name(t.as_str().unwrap()));
    }
    for (k, pm) in v["props"].as_object().unwrap() {
        d.props.insert(k.parse().unwrap(), pm.as_object().unwrap().iter().map(|(n, x)| (n.clone(), unjfv(x))).collect());
    }
    for (k, em) in v["edges"].as_object().unwrap() {
        d.edges.insert(
            k.parse().unwrap(),
            em.as_object().unwrap().iter().map(|(n, x)| (n.clone(), x.as_array().unwrap().iter().map(|y| y.as_u64().unwrap()).collect())).collect(),
        );
    }
    for (k, vs) in v["starts"].as_object().unwrap() {
        d.starts.insert(k.clone(), vs.as_array().unwrap().iter().map(|y| y.as_u64().unwrap()).collect());
    }
    d
}

fn args_json(a: &BTreeMap<Arc<str>, FieldValue>) -> Value {
    Value::Object(a.iter().map(|(k, v)| (k.to_string(), jfv(v))).collect::<Map<String, Value>>())
}

fn args_unjson(v: &Value) -> BTreeMap<Arc<str>, FieldValue> {
    v.as_object().unwrap().iter().map(|(k, x)| (Arc::from(k.as_str()), unjfv(x))).collect()
}

// ------------------------------------------------------------------ the call-recording adapter (C14)
#[derive(Clone)]
struct Recorder {
    inner: GraphAdapter,
    log: Rc<RefCell<Vec<String>>>,
    calls: Rc<RefCell<usize>>,
}

impl Recorder {
    fn new(inner: GraphAdapter) -> Self {
        Recorder { inner, log: Rc::new(RefCell::new(vec![])), calls: Rc::new(RefCell::new(0)) }
    }
    fn call(&self, what: String) -> usize {
        let mut c = self.calls.borrow_mut();
        *c += 1;
        self.log.borrow_mut().push(format!("#{} {}", *c, what));
        *c
    }
}

fn show_params(p: &EdgeParameters) -> String {
    let parts: Vec<String> = p.iter().map(|(k, v)| format!("{}={}", k, show_fv(v))).collect();
    format!("({})", parts.join(","))
}

fn show_vinfo(i: &impl VertexInfo) -> String {
    let req: Vec<String> = i.required_properties().map(|p| p.name.to_string()).collect();
    format!("vid={:?} coerced={:?} required=[{}]", i.vid(), i.coerced_to_type().map(|x| x.to_string()), req.join(","))
}

impl Adapter<'static> for Recorder {
    type Vertex = u64;

    fn resolve_starting_vertices(
        &self,
        edge_name: &Arc<str>,
        parameters: &EdgeParameters,
        resolve_info: &ResolveInfo,
    ) -> VertexIterator<'static, Self::Vertex> {
        let id = self.call(format!("start edge={} params={} {}", edge_name, show_params(parameters), show_vinfo(resolve_info)));
        let log = self.log.clone();
        let it = self.inner.resolve_starting_vertices(edge_name, parameters, resolve_info);
        Box::new(it.inspect(move |v| log.borrow_mut().push(format!("#{id} yield v{v}"))))
    }

    fn resolve_property<V: AsVertex<Self::Vertex> + 'static>(
        &self,
        contexts: ContextIterator<'static, V>,
        type_name: &Arc<str>,
        property_name: &Arc<str>,
        resolve_info: &ResolveInfo,
    ) -> ContextOutcomeIterator<'static, V, FieldValue> {
        let id = self.call(format!("property type={} field={} {}", type_name, property_name, show_vinfo(resolve_info)));
        let log = self.log.clone();
        let contexts: ContextIterator<'static, V> =
            Box::new(contexts.inspect(move |c| log.borrow_mut().push(format!("#{id} pull {:?}", c.active_vertex::<u64>()))));
        let log = self.log.clone();
        let it = self.inner.resolve_property(contexts, type_name, property_name, resolve_info);
        Box::new(it.inspect(move |(_, v)| log.borrow_mut().push(format!("#{id} yield {}", show_fv(v)))))
    }

    fn resolve_neighbors<V: AsVertex<Self::Vertex> + 'static>(
        &self,
        contexts: ContextIterator<'static, V>,
        type_name: &Arc<str>,
        edge_name: &Arc<str>,
        parameters: &EdgeParameters,
        resolve_info: &ResolveEdgeInfo,
    ) -> ContextOutcomeIterator<'static, V, VertexIterator<'static, Self::Vertex>> {
        let id = self.call(format!(
            "neighbors type={} edge={} params={} eid={:?} origin={:?} dest={:?} {}",
            type_name,
            edge_name,
            show_params(parameters),
            resolve_info.eid(),
            resolve_info.origin_vid(),
            resolve_info.destination_vid(),
            show_vinfo(&resolve_info.destination())
        ));
        let log = self.log.clone();
        let contexts: ContextIterator<'static, V> =
            Box::new(contexts.inspect(move |c| log.borrow_mut().push(format!("#{id} pull {:?}", c.active_vertex::<u64>()))));
        let log = self.log.clone();
        let it = self.inner.resolve_neighbors(contexts, type_name, edge_name, parameters, resolve_info);
        Box::new(it.map(move |(c, ns)| {
            let ns: Vec<u64> = ns.collect();
            log.borrow_mut().push(format!("#{id} yield {:?}", ns));
            let b: VertexIterator<'static, u64> = Box::new(ns.into_iter());
            (c, b)
        }))
    }

    fn resolve_coercion<V: AsVertex<Self::Vertex> + 'static>(
        &self,
        contexts: ContextIterator<'static, V>,
        type_name: &Arc<str>,
        coerce_to_type: &Arc<str>,
        resolve_info: &ResolveInfo,
    ) -> ContextOutcomeIterator<'static, V, bool> {
        let id = self.call(format!("coercion type={} to={} {}", type_name, coerce_to_type, show_vinfo(resolve_info)));
        let log = self.log.clone();
        let contexts: ContextIterator<'static, V> =
            Box::new(contexts.inspect(move |c| log.borrow_mut().push(format!("#{id} pull {:?}", c.active_vertex::<u64>()))));
        let log = self.log.clone();
        let it = self.inner.resolve_coercion(contexts, type_name, coerce_to_type, resolve_info);
        Box::new(it.inspect(move |(_, b)| log.borrow_mut().push(format!("#{id} yield {b}"))))
    }
}

// ------------------------------------------------------------------ rendering one case (child side)
const MAX_RENDER: usize = 400_000;

fn clip(s: String) -> String {
    if s.len() <= MAX_RENDER {
        s
    } else {
        let mut cut = MAX_RENDER;
        while !s.is_char_boundary(cut) {
            cut -= 1;
        }
        format!("{}\n...[{} bytes, fnv {:016x}]", &s[..cut], s.len(), fnv(&s))
    }
}

fn render_schema(text: &str) -> (String, Option<Schema>) {
    match catch_unwind(AssertUnwindSafe(|| Schema::parse(text))) {
        Ok(Ok(s)) => ("SCHEMA: OK".to_string(), Some(s)),
        Ok(Err(e)) => (format!("SCHEMA: ERR {e:?}"), None),
        Err(p) => (format!("SCHEMA: PANIC {}", panic_msg(p)), None),
    }
}

fn render_compile(schema: &Schema, query: &str) -> (String, Option<Arc<IndexedQuery>>) {
    match catch_unwind(AssertUnwindSafe(|| parse(schema, query))) {
        Ok(Ok(iq)) => {
            let ir = serde_json::to_string(&iq.ir_query).unwrap_or_else(|e| format!("<serialisation failed: {e}>"));
            let outs: Vec<String> = iq.outputs.iter().map(|(k, o)| format!("{}:{}", k, o.value_type)).collect();
            (format!("COMPILE: IR {ir}\nOUTPUTS: {}", outs.join(",")), Some(iq))
        }
        Ok(Err(e)) => (format!("COMPILE: ERR {e:?}\nDISPLAY: {e}"), None),
        Err(p) => (format!("COMPILE: PANIC {}", panic_msg(p)), None),
    }
}

fn render_exec(iq: Arc<IndexedQuery>, args: Arc<BTreeMap<Arc<str>, FieldValue>>, d: Arc<Dataset>) -> String {
    let rec = Recorder::new(GraphAdapter { d });
    let log = rec.log.clone();
    let rows: RefCell<Vec<String>> = RefCell::new(vec![]);
    let r = catch_unwind(AssertUnwindSafe(|| match interpret_ir(Arc::new(rec), iq, args) {
        Ok(it) => {
            for row in it {
                let s = engine::show_row(&row);
                log.borrow_mut().push(format!("ROW {s}"));
                rows.borrow_mut().push(s);
            }
            "ROWS".to_string()
        }
        Err(e) => format!("ARGERR {e:?}"),
    }));
    let head = match r {
        Ok(h) => h,
        Err(p) => format!("PANIC {}", panic_msg(p)),
    };
    let rows = rows.into_inner();
    let trace = log.borrow().join("\n");
    format!("EXEC: {} n={}\n{}\nTRACE:\n{}", head, rows.len(), rows.join("\n"), trace)
}

fn render_case(c: &Value) -> String {
    let kind = c["kind"].as_str().unwrap();
    let (s1, schema) = render_schema(c["schema"].as_str().unwrap());
    let mut out = s1;
    if kind == "schema" {
        return clip(out);
    }
    let Some(schema) = schema else { return clip(out) };
    let (s2, iq) = render_compile(&schema, c["query"].as_str().unwrap());
    out.push('\n');
    out.push_str(&s2);
    if kind == "world" {
        if let Some(iq) = iq {
            let args = Arc::new(args_unjson(&c["args"]));
            let d = Arc::new(dataset_unjson(&c["dataset"]));
            out.push('\n');
            out.push_str(&render_exec(iq, args, d));
        }
    }
    clip(out)
}

fn intro_rows(schema: &Schema, iq: &Arc<IndexedQuery>) -> Result<Vec<String>, String> {
    let adapter = Arc::new(SchemaAdapter::new(schema));
    catch_unwind(AssertUnwindSafe(|| match interpret_ir(adapter, iq.clone(), Arc::new(BTreeMap::new())) {
        Ok(it) => it.map(|r| engine::show_row(&r)).collect::<Vec<String>>(),
        Err(e) => vec![format!("ARGERR {e:?}")],
    }))
    .map_err(panic_msg)
}

/// introspection case: rows of a SchemaAdapter query over `target`; plus what happens inside ONE process
fn render_intro(c: &Value) -> Value {
    let target_text = c["schema"].as_str().unwrap();
    let meta = match Schema::parse(SchemaAdapter::schema_text()) {
        Ok(s) => s,
        Err(e) => return json!({"error": format!("introspection schema: {e:?}")}),
    };
    let iq = match parse(&meta, c["query"].as_str().unwrap()) {
        Ok(q) => q,
        Err(e) => return json!({"error": format!("introspection query: {e:?}")}),
    };
    let target = match Schema::parse(target_text) {
        Ok(s) => s,
        Err(e) => return json!({"error": format!("target schema: {e:?}")}),
    };
    let rows1 = intro_rows(&target, &iq);
    let rows2 = intro_rows(&target, &iq); // the SAME Schema value, a second adapter over it
    let cloned = target.clone();
    let rows3 = intro_rows(&cloned, &iq);
    // the same text parsed again IN THE SAME PROCESS: a different Schema value with its own hash keys
    let mut reparse_differs = false;
    for _ in 0..4 {
        if let Ok(t2) = Schema::parse(target_text) {
            if intro_rows(&t2, &iq) != rows1 {
                reparse_differs = true;
            }
        }
    }
    json!({
        "rows": match &rows1 { Ok(r) => json!(r), Err(p) => json!([format!("PANIC {p}")]) },
        "same_schema_value_again_equal": rows1 == rows2,
        "cloned_schema_equal": rows1 == rows3,
        "reparsed_in_same_process_differs": reparse_differs,
        "schema_debug_fnv": format!("{:016x}", fnv(&format!("{target:?}"))),
    })
}

fn c14child(input: &str, output: &str) {
    use std::io::Write;
    let text = std::fs::read_to_string(input).expect("cases file");
    let mut out = std::io::BufWriter::new(std::fs::File::create(output).expect("results file"));
    for line in text.lines() {
        let c: Value = serde_json::from_str(line).expect("case json");
        let idx = c["idx"].as_u64().unwrap();
        if c["kind"] == "introspect" {
            let r = render_intro(&c);
            writeln!(out, "{}", json!({"idx": idx, "intro": r})).unwrap();
        } else {
            let r0 = render_case(&c);
            let r1 = render_case(&c);
            writeln!(out, "{}", json!({"idx": idx, "digest": format!("{:016x}", fnv(&r0)), "rep": [r0, r1]})).unwrap();
        }
    }
    out.flush().unwrap();
}

// ------------------------------------------------------------------ case generation (parent side)
fn replace_nth(text: &str, pat: &str, with: &str, nth: usize) -> Option<String> {
    let idxs: Vec<usize> = text.match_indices(pat).map(|(i, _)| i).collect();
    if idxs.is_empty() {
        return None;
    }
    let i = idxs[nth % idxs.len()];
    Some(format!("{}{}{}", &text[..i], with, &text[i + pat.len()..]))
}

/// token-level mutations of an accepted query: most are refused by the frontend, several with more than
/// one error (whose ORDER must be reproducible)
fn mutate_once(rng: &mut Rng, text: &str) -> (String, &'static str) {
    let r = rng.below(1000);
    let props = ["id", "name", "score", "ratio", "flag", "tags", "nums"];
    for attempt in 0..12 {
        let m: Option<(String, &'static str)> = match (rng.below(12) + attempt) % 12 {
            0 => {
                // collapse output names onto two names: MultipleOutputsWithSameName (try_collect_unique's drain path)
                let mut t = text.to_string();
                let mut changed = 0;
                for k in (1..40).rev() {
                    let from = format!("@output(name: \"o{k}\")");
                    if t.contains(&from) {
                        t = t.replace(&from, &format!("@output(name: \"dup{}\")", k % 2));
                        changed += 1;
                    }
                }
                if changed >= 2 { Some((t, "dup-outputs")) } else { None }
            }
            1 => replace_nth(text, "\"%t", "\"%zz", r).map(|t| (t, "undefined-tag")),
            2 => {
                let p = *rng.pick(&props);
                replace_nth(text, &format!("    {p} "), &format!("    {p}zz "), r).map(|t| (t, "nonexistent-field"))
            }
            3 => replace_nth(text, "@optional", "@optional @optional", r)
                .or_else(|| replace_nth(text, "@fold", "@fold @fold", r))
                .map(|t| (t, "duplicated-directive")),
            4 => replace_nth(text, "@fold", "@fold @optional", r)
                .or_else(|| replace_nth(text, "@recurse(depth: ", "@optional @fold @recurse(depth: ", r))
                .map(|t| (t, "conflicting-directives")),
            5 => replace_nth(text, "op: \"", "op: \"bogus_", r).map(|t| (t, "unknown-operator")),
            6 => {
                let cut = text.len() * (3 + rng.below(6)) / 10;
                let mut cut = cut.max(1).min(text.len() - 1);
                while !text.is_char_boundary(cut) {
                    cut -= 1;
                }
                Some((text[..cut].to_string(), "truncated"))
            }
            7 => replace_nth(text, "op: \"one_of\"", "op: \"has_substring\"", r)
                .or_else(|| replace_nth(text, "op: \"=\"", "op: \"regex\"", r))
                .or_else(|| replace_nth(text, "op: \">=\"", "op: \"contains\"", r))
                .map(|t| (t, "operator-type-mismatch")),
            8 => replace_nth(text, "@tag(name: \"t", "@tag(name: \"unused_t", r).map(|t| (t, "unused-and-undefined-tag")),
            9 => replace_nth(text, "... on ", "... on Nope", r).map(|t| (t, "coercion-to-unknown-type")),
            10 => replace_nth(text, "@recurse(depth: ", "@recurse(depth: -", r).map(|t| (t, "negative-depth")),
            _ => replace_nth(text, "value: [\"$", "value: [\"$v1\", \"$", r).map(|t| (t, "too-many-filter-arguments")),
        };
        if let Some(x) = m {
            return x;
        }
    }
    (text.replacen('{', "{{", 1), "extra-brace")
}

/// mutations applied at EVERY matching site: several independent errors in one query, reported as
/// FrontendError::MultipleErrors in an order that must be reproducible
fn mutate_all(rng: &mut Rng, text: &str) -> Option<(String, &'static str)> {
    let t = match rng.below(6) {
        0 => (text.replace("op: \"=\"", "op: \"has_substring\"").replace("op: \"one_of\"", "op: \"<\"").replace("op: \">=\"", "op: \"regex\"").replace("op: \"!=\"", "op: \"contains\""), "all-operators-mismatch"),
        1 => (text.replace("\"%t", "\"%undefined_t"), "all-tags-undefined"),
        2 => (text.replace(" @output(name: \"o", " @tag(name: \"o").replace("@tag(name: \"t", "@output(name: \"t"), "outputs-and-tags-swapped"),
        3 => (text.replace("    id ", "    idzz ").replace("    name ", "    namezz "), "several-nonexistent-fields"),
        4 => (text.replace("(lo: ", "(zq: 1, lozz: 2, ab: null, mm: \"x\", lo: ").replace("(hi: ", "(hizz: \"s\", b2: 1, a1: 2, hi: "), "bad-edge-parameters"),
        _ => (text.replace(" @output(name: \"o", " @fold @output(name: \"o").replace("@optional", "@optional @output"), "directives-on-wrong-kind"),
    };
    if t.0 == text { None } else { Some(t) }
}

fn mutate(rng: &mut Rng, text: &str) -> (String, String) {
    if rng.chance(2, 5) {
        if let Some((t, k)) = mutate_all(rng, text) {
            return (t, k.to_string());
        }
    }
    let (t1, k1) = mutate_once(rng, text);
    if rng.chance(1, 2) {
        let (t2, k2) = mutate_once(rng, &t1);
        (t2, format!("{k1}+{k2}"))
    } else {
        (t1, k1.to_string())
    }
}

/// a schema document with many independent defects spread over many types with random names, so that
/// the error ORDER depends on `vertex_types`' iteration order unless it is sorted first
fn gen_bad_schema(rng: &mut Rng) -> String {
    let n = 4 + rng.below(12);
    let mut names: BTreeSet<String> = BTreeSet::new();
    while names.len() < n {
        let len = 1 + rng.below(6);
        let s: String = (0..len).map(|_| (b'a' + rng.below(26) as u8) as char).collect();
        names.insert(format!("T{s}"));
    }
    let names: Vec<String> = {
        // document order = a seeded shuffle (so that "sorted" is distinguishable from "document order")
        let mut v: Vec<String> = names.into_iter().collect();
        for i in (1..v.len()).rev() {
            v.swap(i, rng.below(i + 1));
        }
        v
    };
    let mut s = String::from("schema {\n  query: RootSchemaQuery\n}\n");
    s.push_str(Schema::ALL_DIRECTIVE_DEFINITIONS);
    s.push_str("\ntype RootSchemaQuery {\n");
    for (i, t) in names.iter().enumerate() {
        s.push_str(&format!("  e{i}: [{t}!]\n"));
    }
    if rng.chance(1, 2) {
        s.push_str("  scalarAtRoot: Int\n");
    }
    s.push_str("}\n");
    let ifaces: Vec<String> = names.iter().take(1 + rng.below(3)).cloned().collect();
    for t in &names {
        let is_iface = ifaces.contains(t);
        let mut implements = vec![];
        if !is_iface && rng.chance(1, 2) {
            implements.push(rng.pick(&ifaces).clone());
        }
        if rng.chance(1, 3) {
            implements.push(format!("Missing{}", rng.below(3)));
        }
        if rng.chance(1, 5) {
            implements.push(rng.pick(&names).clone()); // maybe a non-interface or itself
        }
        let imp = if implements.is_empty() { String::new() } else { format!(" implements {}", implements.join(" & ")) };
        s.push_str(&format!("\n{} {}{} {{\n", if is_iface { "interface" } else { "type" }, t, imp));
        s.push_str("  id: Int\n");
        if is_iface {
            s.push_str("  shared: String\n  link(x: Int): [");
            s.push_str(t);
            s.push_str("!]\n");
        }
        for f in 0..rng.below(4) {
            // field names are unique per type (a duplicate field would end Schema::new at the first error)
            match rng.below(7) {
                0 => s.push_str(&format!("  __reserved{f}: Int\n")),
                1 => s.push_str(&format!("  unk{f}: Unknown{}\n", rng.below(3))),
                2 => s.push_str(&format!("  p{f}(x: Int): String\n")),
                3 => s.push_str(&format!("  toRoot{f}: RootSchemaQuery\n")),
                4 => s.push_str(&format!("  nested{f}: [[{}]]\n", rng.pick(&names))),
                5 => s.push_str(&format!("  bad{f}(d: Int! = \"x\"): [{}]\n", rng.pick(&names))),
                _ => s.push_str(&format!("  ok{f}: [{}!]\n", rng.pick(&names))),
            }
        }
        s.push_str("}\n");
    }
    s
}

#[derive(serde::Deserialize)]
struct TestGraphQLQuery {
    schema_name: String,
    query: String,
}

fn read_corpus_queries(dir: &str) -> Vec<(String, String, String)> {
    let mut out = vec![];
    let Ok(rd) = std::fs::read_dir(dir) else { return out };
    let mut files: Vec<PathBuf> = rd.filter_map(|e| e.ok().map(|e| e.path())).filter(|p| p.to_string_lossy().ends_with(".graphql.ron")).collect();
    files.sort();
    for f in files {
        let Ok(text) = std::fs::read_to_string(&f) else { continue };
        let parsed: Option<TestGraphQLQuery> = ron::from_str(&text).ok().or_else(|| {
            // fall back to a textual extraction when the arguments block is not plain RON for us
            let sn = text.split("schema_name:").nth(1)?.split('"').nth(1)?.to_string();
            let q = text.split("r#\"").nth(1)?.split("\"#").next()?.to_string();
            Some(TestGraphQLQuery { schema_name: sn, query: q })
        });
        if let Some(p) = parsed {
            out.push((f.file_name().unwrap().to_string_lossy().to_string(), p.schema_name, p.query));
        }
    }
    out
}

fn read_graphql_files(dir: &str) -> Vec<(String, String)> {
    let mut out = vec![];
    let Ok(rd) = std::fs::read_dir(dir) else { return out };
    let mut files: Vec<PathBuf> = rd.filter_map(|e| e.ok().map(|e| e.path())).filter(|p| p.extension().map(|x| x == "graphql").unwrap_or(false)).collect();
    files.sort();
    for f in files {
        if let Ok(text) = std::fs::read_to_string(&f) {
            out.push((f.file_name().unwrap().to_string_lossy().to_string(), text));
        }
    }
    out
}

const TEST_DATA: &str = "/repo/trustfall_core/test_data";

fn first_difference(a: &str, b: &str) -> Value {
    let la: Vec<&str> = a.lines().collect();
    let lb: Vec<&str> = b.lines().collect();
    for i in 0..la.len().max(lb.len()) {
        let x = la.get(i).copied().unwrap_or("<end>");
        let y = lb.get(i).copied().unwrap_or("<end>");
        if x != y {
            let section = la[..i.min(la.len())].iter().rev().find(|l| l.starts_with("SCHEMA:") || l.starts_with("COMPILE:") || l.starts_with("EXEC:") || l.starts_with("TRACE:")).copied().unwrap_or("");
            let section: String = if x.starts_with("SCHEMA:") || x.starts_with("COMPILE:") || x.starts_with("EXEC:") { x.chars().take(12).collect() } else { section.chars().take(12).collect() };
            return json!({"line": i, "section": section, "a": x.chars().take(600).collect::<String>(), "b": y.chars().take(600).collect::<String>()});
        }
    }
    json!({"line": null})
}

fn spawn_children(exe: &Path, sub: &str, input: &Path, outdir: &Path, tag: &str, k: usize, extra: &[String]) -> Vec<Result<String, String>> {
    let mut kids = vec![];
    for j in 0..k {
        let outp = outdir.join(format!("{tag}_child{j}.jsonl"));
        let mut cmd = std::process::Command::new(exe);
        cmd.arg(sub).arg(input).arg(&outp);
        for e in extra {
            cmd.arg(e);
        }
        cmd.stdout(std::process::Stdio::null()).stderr(std::process::Stdio::piped());
        kids.push((outp, cmd.spawn()));
    }
    kids.into_iter()
        .map(|(outp, ch)| match ch {
            Err(e) => Err(format!("spawn failed: {e}")),
            Ok(ch) => match ch.wait_with_output() {
                Err(e) => Err(format!("wait failed: {e}")),
                Ok(o) if !o.status.success() => Err(format!("child exited with {:?}: {}", o.status.code(), String::from_utf8_lossy(&o.stderr).chars().take(800).collect::<String>())),
                Ok(_) => std::fs::read_to_string(&outp).map_err(|e| format!("no child output: {e}")),
            },
        })
        .collect()
}

fn run_c14(args: &Args, o: &mut out::Out) {
    let k = opt_usize(&args.rest, "--k", 4);
    let oracle_only = args.rest.iter().any(|x| x == "--oracle-only");
    let mut rng = Rng::new(args.seed);
    let schema_text = world::schema_text();
    let schema = world::schema();
    let mut stats = engine::GenStats { generated: 0, frontend_rejected: 0, frontend_panicked: 0, reject_kinds: Default::default() };
    let mut cases: Vec<Value> = vec![];
    let push = |cases: &mut Vec<Value>, mut c: Value| {
        c["idx"] = json!(cases.len());
        cases.push(c);
    };
    // ---- generated worlds (+ Coq tie cases on the first few) and one malformed variant of each query
    let n_tie = if oracle_only { 0 } else { args.n.min(16) };
    for i in 0..args.n {
        // a fifth of the worlds with the known-defect knobs raised: panics must be reproducible too
        let kd = if i % 5 == 4 { 12 } else { 0 };
        let c = engine::gen_case(&mut rng, &schema, &mut stats, if i < n_tie { 0 } else { kd });
        for f in &c.features {
            o.count(&format!("feat:{f}"));
        }
        if i < n_tie {
            let outcome = engine::run_impl(&c);
            let imp = engine::show_outcome(&outcome);
            let nontrivial = matches!(&outcome, engine::Outcome::Rows(r) if !r.is_empty())
                || c.features.iter().filter(|f| f.starts_with("edge-") || f.starts_with("fold-") || f.starts_with("tag-")).count() >= 2;
            o.add(out::Case {
                input: engine::case_input_json(&c),
                coq: format!("run_exec {}", engine::case_coq_args(&c)),
                imp,
                nontrivial,
                key: format!("{i}:{}", c.query_text),
            });
        }
        push(&mut cases, json!({"kind": "world", "schema": schema_text, "query": c.query_text, "args": args_json(&c.args), "dataset": dataset_json(&c.dataset)}));
        let (bad, how) = mutate(&mut rng, &c.query_text);
        push(&mut cases, json!({"kind": "query", "source": format!("mutation:{how}"), "schema": schema_text, "query": bad}));
    }
    // ---- the repo's query corpora (compiled only)
    let test_schemas: BTreeMap<String, String> =
        read_graphql_files(&format!("{TEST_DATA}/schemas")).into_iter().map(|(f, t)| (f.trim_end_matches(".graphql").to_string(), t)).collect();
    for dir in ["frontend_errors", "parse_errors", "valid_queries", "execution_errors"] {
        for (file, sn, q) in read_corpus_queries(&format!("{TEST_DATA}/tests/{dir}")) {
            if let Some(st) = test_schemas.get(&sn) {
                push(&mut cases, json!({"kind": "query", "source": format!("{dir}/{file}"), "schema": st, "query": q}));
                o.count(&format!("corpus:{dir}"));
            }
        }
    }
    // ---- schema documents
    for dir in ["tests/schema_errors", "tests/valid_schemas", "schemas"] {
        for (file, text) in read_graphql_files(&format!("{TEST_DATA}/{dir}")) {
            push(&mut cases, json!({"kind": "schema", "source": format!("{dir}/{file}"), "schema": text}));
            o.count(&format!("corpus:{dir}"));
        }
    }
    push(&mut cases, json!({"kind": "schema", "source": "world", "schema": schema_text}));
    push(&mut cases, json!({"kind": "schema", "source": "introspection", "schema": SchemaAdapter::schema_text()}));
    for j in 0..(args.n / 2).max(20) {
        push(&mut cases, json!({"kind": "schema", "source": format!("generated-bad-schema-{j}"), "schema": gen_bad_schema(&mut rng)}));
    }
    // ---- introspection adapter (F14)
    let intro_queries = [
        "{ VertexType { name @output } }",
        "{ VertexType { name @output property { pname: name @output } } }",
        "{ VertexType { name @output implementer @fold { sub: name @output } } }",
        "{ Entrypoint { ename: name @output target { name @output } } }",
    ];
    let mut intro_targets: Vec<(String, String)> = vec![("world".into(), schema_text.clone()), ("introspection".into(), SchemaAdapter::schema_text().to_string())];
    for (n, t) in &test_schemas {
        intro_targets.push((n.clone(), t.clone()));
    }
    for (tn, tt) in &intro_targets {
        for q in intro_queries {
            push(&mut cases, json!({"kind": "introspect", "source": tn, "schema": tt, "query": q}));
        }
    }
    for c in &cases {
        o.count(&format!("case:{}", c["kind"].as_str().unwrap()));
    }

    // ---- run every batch in k separate processes
    let exe = std::env::current_exe().expect("current_exe");
    let work = args.out.join("procs");
    std::fs::create_dir_all(&work).unwrap();
    let mut processes = 0usize;
    let mut identical = 0u64;
    let mut outcome_hist: BTreeMap<String, u64> = BTreeMap::new();
    let mut f14_cases = 0u64;
    let mut f14_order_differs = 0u64;
    let mut f14_reparse_differs = 0u64;
    let mut debug_differs = 0u64;
    let mut f14_example: Option<Value> = None;
    for (b, batch) in cases.chunks(64).enumerate() {
        let inp = work.join(format!("batch{b}.jsonl"));
        std::fs::write(&inp, batch.iter().map(|c| c.to_string()).collect::<Vec<_>>().join("\n")).unwrap();
        let results = spawn_children(&exe, "c14child", &inp, &work, &format!("batch{b}"), k, &[]);
        processes += k;
        let mut per_child: Vec<BTreeMap<u64, Value>> = vec![];
        for (j, r) in results.iter().enumerate() {
            match r {
                Err(e) => {
                    o.oracle_fail("a child process failed (crash outside catch_unwind / abort)", json!({"batch": b, "child": j, "cases": batch.iter().map(|c| c["idx"].clone()).collect::<Vec<_>>()}), json!({"error": e}));
                    per_child.push(BTreeMap::new());
                }
                Ok(text) => per_child.push(text.lines().filter_map(|l| serde_json::from_str::<Value>(l).ok()).map(|v| (v["idx"].as_u64().unwrap(), v)).collect()),
            }
        }
        for c in batch {
            let idx = c["idx"].as_u64().unwrap();
            let got: Vec<&Value> = per_child.iter().filter_map(|m| m.get(&idx)).collect();
            if got.len() != k {
                continue; // the child failure was reported above
            }
            let mut replay = c.clone();
            if let Some(s) = replay.get("schema").and_then(|s| s.as_str()) {
                if s == schema_text {
                    replay["schema"] = json!("<world schema: harness/src/world.rs schema_text()>");
                }
            }
            if c["kind"] == "introspect" {
                f14_cases += 1;
                let rows: Vec<Vec<String>> = got.iter().map(|g| g["intro"]["rows"].as_array().map(|a| a.iter().map(|x| x.as_str().unwrap_or("").to_string()).collect()).unwrap_or_default()).collect();
                if let Some(e) = got.iter().find_map(|g| g["intro"].get("error")) {
                    o.oracle_fail("introspection case could not be run", replay.clone(), json!({"error": e}));
                    continue;
                }
                let sorted: Vec<Vec<String>> = rows.iter().map(|r| { let mut s = r.clone(); s.sort(); s }).collect();
                if sorted.iter().any(|s| *s != sorted[0]) {
                    o.oracle_fail("SchemaAdapter returns different row MULTISETS in different processes", replay.clone(), json!({"process0": rows[0], "other": rows.iter().find(|r| { let mut s = (*r).clone(); s.sort(); s != sorted[0] })}));
                }
                for g in &got {
                    if g["intro"]["same_schema_value_again_equal"] != json!(true) {
                        o.oracle_fail("two SchemaAdapters over the SAME Schema value in one process returned rows in different orders", replay.clone(), json!({"intro": g["intro"]}));
                    }
                    if g["intro"]["cloned_schema_equal"] != json!(true) {
                        o.count("f14:clone-order-differs");
                    }
                    if g["intro"]["reparsed_in_same_process_differs"] == json!(true) {
                        f14_reparse_differs += 1;
                    }
                }
                if rows.iter().any(|r| *r != rows[0]) {
                    f14_order_differs += 1;
                    if f14_example.is_none() {
                        f14_example = Some(json!({"target_schema": c["source"], "query": c["query"], "process0": rows[0].iter().take(6).collect::<Vec<_>>(), "processN": rows.iter().find(|r| **r != rows[0]).map(|r| r.iter().take(6).cloned().collect::<Vec<_>>())}));
                    }
                }
                let dbg: BTreeSet<String> = got.iter().map(|g| g["intro"]["schema_debug_fnv"].as_str().unwrap_or("").to_string()).collect();
                if dbg.len() > 1 {
                    debug_differs += 1;
                }
                continue;
            }
            let mut all: Vec<&str> = vec![];
            for g in &got {
                for r in g["rep"].as_array().unwrap() {
                    all.push(r.as_str().unwrap());
                }
            }
            let first = all[0];
            let head: String = first.lines().filter(|l| l.starts_with("SCHEMA:") || l.starts_with("COMPILE:") || l.starts_with("EXEC:")).map(|l| l.split_whitespace().take(2).collect::<Vec<_>>().join(" ")).collect::<Vec<_>>().join(" / ");
            *outcome_hist.entry(format!("{}: {}", c["kind"].as_str().unwrap(), head)).or_insert(0) += 1;
            match all.iter().position(|r| *r != first) {
                None => identical += 1,
                Some(p) => {
                    let same_process = p % 2 == 1 && all[p - 1] == first;
                    o.oracle_fail(
                        if same_process || all.chunks(2).any(|c| c[0] != c[1]) { "compiling/executing the same input twice gives different results (within one process and across processes)" } else { "compiling/executing the same input in separate processes gives different results" },
                        replay,
                        json!({"first_difference": first_difference(first, all[p]), "process": p / 2, "repetition": p % 2, "processes": k}),
                    );
                }
            }
        }
    }
    if !args.rest.iter().any(|x| x == "--keep") {
        let _ = std::fs::remove_dir_all(&work);
    }
    for (k2, v) in outcome_hist {
        o.count_n(&format!("outcome:{k2}"), v);
    }
    o.count_n("gen:attempts", stats.generated);
    o.count_n("gen:frontend-rejected", stats.frontend_rejected);
    o.extra.insert("processes_spawned".into(), json!(processes));
    o.extra.insert("processes_per_case".into(), json!(k));
    o.extra.insert("repetitions_per_process".into(), json!(2));
    o.extra.insert("cases_compared".into(), json!(cases.len()));
    o.extra.insert("cases_byte_identical_across_all_runs".into(), json!(identical));
    o.extra.insert(
        "F14_observation".into(),
        json!({
            "what": "SchemaAdapter (schema/adapter/mod.rs:105-110) enumerates VertexType vertices with HashMap::values(): the row ORDER of introspection queries differs between processes (and between two Schema values parsed from the same text in one process); the row multiset is the same, and one Schema value always gives one order. Not counted as a C14 violation: the adapter itself is not deterministic across Schema instances (the property's premise), the engine is.",
            "introspection_cases": f14_cases,
            "cases_whose_row_order_differed_between_processes": f14_order_differs,
            "child_runs_in_which_reparsing_in_the_same_process_changed_the_order": f14_reparse_differs,
            "cases_whose_Schema_Debug_text_differed_between_processes": debug_differs,
            "example": f14_example,
        }),
    );
}

// ------------------------------------------------------------------ C24
fn seq_compile(schema: &Schema, q: &str) -> String {
    render_compile(schema, q).0
}

fn seq_exec(iq: Arc<IndexedQuery>, args: Arc<BTreeMap<Arc<str>, FieldValue>>, d: Arc<Dataset>) -> String {
    engine::show_outcome(&engine::run_with(Arc::new(GraphAdapter { d }), iq, args))
}

struct TCase {
    idx: u64,
    query: String,
    args: Arc<BTreeMap<Arc<str>, FieldValue>>,
    dataset: Arc<Dataset>,
    exp_ir: String,
    exp_rows: String,
}

fn c24child(input: &str, output: &str, threads: usize) {
    // NOTHING of trustfall_core has run in this process yet: the OnceLock statics are cold.
    let text = std::fs::read_to_string(input).expect("cases file");
    let doc: Value = serde_json::from_str(&text).expect("cases json");
    let schema_text: Arc<String> = Arc::new(doc["schema"].as_str().unwrap().to_string());
    let cases: Arc<Vec<TCase>> = Arc::new(
        doc["cases"]
            .as_array()
            .unwrap()
            .iter()
            .map(|c| TCase {
                idx: c["idx"].as_u64().unwrap(),
                query: c["query"].as_str().unwrap().to_string(),
                args: Arc::new(args_unjson(&c["args"])),
                dataset: Arc::new(dataset_unjson(&c["dataset"])),
                exp_ir: c["exp_ir"].as_str().unwrap().to_string(),
                exp_rows: c["exp_rows"].as_str().unwrap().to_string(),
            })
            .collect(),
    );
    let n = cases.len();
    let mismatches: Arc<std::sync::Mutex<Vec<Value>>> = Arc::new(std::sync::Mutex::new(vec![]));
    let ops = Arc::new(std::sync::atomic::AtomicU64::new(0));
    let report = |mm: &std::sync::Mutex<Vec<Value>>, phase: &str, t: usize, idx: u64, what: &str, exp: &str, got: &str| {
        mm.lock().unwrap().push(json!({"phase": phase, "thread": t, "idx": idx, "what": what,
            "expected": exp.chars().take(1500).collect::<String>(), "got": got.chars().take(1500).collect::<String>()}));
    };

    // ---- phase A: cold start, every thread parses the schema itself
    let barrier = Arc::new(Barrier::new(threads));
    let mut hs = vec![];
    for t in 0..threads {
        let (cases, st, mm, ops, barrier) = (cases.clone(), schema_text.clone(), mismatches.clone(), ops.clone(), barrier.clone());
        hs.push(std::thread::spawn(move || {
            barrier.wait();
            let r = catch_unwind(AssertUnwindSafe(|| {
                let schema = Schema::parse(st.as_str()).expect("world schema");
                for j in 0..n {
                    let c = &cases[(j + t * 7) % n];
                    let (ir, iq) = render_compile(&schema, &c.query);
                    ops.fetch_add(1, std::sync::atomic::Ordering::Relaxed);
                    if ir != c.exp_ir {
                        report(&mm, "A-cold", t, c.idx, "compiled query differs from the sequential one", &c.exp_ir, &ir);
                    }
                    if let Some(iq) = iq {
                        let rows = seq_exec(iq, c.args.clone(), c.dataset.clone());
                        ops.fetch_add(1, std::sync::atomic::Ordering::Relaxed);
                        if rows != c.exp_rows {
                            report(&mm, "A-cold", t, c.idx, "rows differ from the sequential ones", &c.exp_rows, &rows);
                        }
                    }
                }
            }));
            if let Err(p) = r {
                report(&mm, "A-cold", t, u64::MAX, "thread panicked", "", &panic_msg(p));
            }
        }));
    }
    for h in hs {
        if h.join().is_err() {
            report(&mismatches, "A-cold", usize::MAX, u64::MAX, "thread could not be joined", "", "");
        }
    }

    // ---- phase B: one Arc<Schema> and Arc<IndexedQuery>s shared by all threads
    let schema = Arc::new(Schema::parse(schema_text.as_str()).expect("world schema"));
    let shared: Arc<Vec<Option<Arc<IndexedQuery>>>> = Arc::new(cases.iter().map(|c| parse(&schema, &c.query).ok()).collect());
    // the read-only queries of the shared schema that adapters use concurrently (Schema::subtypes is what
    // resolve_coercion_using_schema calls): expected answers computed sequentially on a private Schema
    let type_names: Arc<Vec<String>> = Arc::new(["Thing", "Item", "Box", "Leaf", "Gadget"].iter().map(|s| s.to_string()).collect());
    let expected_subtypes: Arc<Vec<Vec<String>>> = {
        let private = Schema::parse(schema_text.as_str()).expect("world schema");
        Arc::new(type_names.iter().map(|tn| {
            let mut v: Vec<String> = private.subtypes(tn).map(|it| it.map(|s| s.to_string()).collect()).unwrap_or_default();
            v.sort();
            v
        }).collect())
    };
    let barrier = Arc::new(Barrier::new(threads));
    let mut hs = vec![];
    for t in 0..threads {
        let (cases, schema, shared, mm, ops, barrier) = (cases.clone(), schema.clone(), shared.clone(), mismatches.clone(), ops.clone(), barrier.clone());
        let (type_names, expected_subtypes) = (type_names.clone(), expected_subtypes.clone());
        hs.push(std::thread::spawn(move || -> Vec<(u64, Arc<IndexedQuery>)> {
            barrier.wait();
            let mut produced = vec![];
            let r = catch_unwind(AssertUnwindSafe(|| {
                for round in 0..400usize {
                    let i = (round * 3 + t) % type_names.len();
                    let mut got: Vec<String> = schema.subtypes(&type_names[i]).map(|it| it.map(|s| s.to_string()).collect()).unwrap_or_default();
                    got.sort();
                    ops.fetch_add(1, std::sync::atomic::Ordering::Relaxed);
                    if got != expected_subtypes[i] {
                        report(&mm, "B-shared", t, u64::MAX, "Schema::subtypes on the shared Arc<Schema> differs from the sequential answer", &format!("{}: {:?}", type_names[i], expected_subtypes[i]), &format!("{:?}", got));
                        break;
                    }
                }
                for j in 0..n {
                    let k = if t % 2 == 0 { (j + t * 7) % n } else { (2 * n - 1 - j + t * 7) % n }; // a thread-specific visiting order (a permutation)
                    let c = &cases[k];
                    let (ir, iq) = render_compile(&schema, &c.query);
                    ops.fetch_add(1, std::sync::atomic::Ordering::Relaxed);
                    if ir != c.exp_ir {
                        report(&mm, "B-shared", t, c.idx, "compiling against the shared Arc<Schema> differs from the sequential result", &c.exp_ir, &ir);
                    }
                    if let Some(sq) = &shared[k] {
                        let rows = seq_exec(sq.clone(), c.args.clone(), c.dataset.clone());
                        ops.fetch_add(1, std::sync::atomic::Ordering::Relaxed);
                        if rows != c.exp_rows {
                            report(&mm, "B-shared", t, c.idx, "executing the shared Arc<IndexedQuery> differs from the sequential rows", &c.exp_rows, &rows);
                        }
                    }
                    if let Some(iq) = iq {
                        if (k + t) % 4 == 0 {
                            produced.push((k as u64, iq));
                        }
                    }
                }
            }));
            if let Err(p) = r {
                report(&mm, "B-shared", t, u64::MAX, "thread panicked", "", &panic_msg(p));
            }
            produced
        }));
    }
    let mut sent: Vec<(u64, Arc<IndexedQuery>)> = vec![];
    for h in hs {
        match h.join() {
            Ok(p) => sent.extend(p),
            Err(_) => report(&mismatches, "B-shared", usize::MAX, u64::MAX, "thread could not be joined", "", ""),
        }
    }
    // ---- phase C: compiled queries SENT from the thread that made them to other threads
    let sent = Arc::new(sent);
    let mut hs = vec![];
    let workers = threads.min(4).max(1);
    for t in 0..workers {
        let (cases, sent, mm, ops) = (cases.clone(), sent.clone(), mismatches.clone(), ops.clone());
        hs.push(std::thread::spawn(move || {
            for (j, (k, iq)) in sent.iter().enumerate() {
                if j % workers != t {
                    continue;
                }
                let c = &cases[*k as usize];
                let rows = seq_exec(iq.clone(), c.args.clone(), c.dataset.clone());
                ops.fetch_add(1, std::sync::atomic::Ordering::Relaxed);
                if rows != c.exp_rows {
                    report(&mm, "C-sent", t, c.idx, "executing a compiled query received from another thread differs from the sequential rows", &c.exp_rows, &rows);
                }
            }
        }));
    }
    for h in hs {
        let _ = h.join();
    }
    let mm = mismatches.lock().unwrap().clone();
    std::fs::write(output, json!({"mismatches": mm, "ops": ops.load(std::sync::atomic::Ordering::Relaxed), "sent": sent.len()}).to_string()).unwrap();
}

fn run_c24(args: &Args, o: &mut out::Out) {
    send_sync_assertions::all();
    let threads = opt_usize(&args.rest, "--threads", 8);
    let rounds = opt_usize(&args.rest, "--rounds", 3);
    let oracle_only = args.rest.iter().any(|x| x == "--oracle-only");
    let schema_text = world::schema_text();
    let schema = world::schema();
    let exe = std::env::current_exe().expect("current_exe");
    let work = args.out.join("procs");
    std::fs::create_dir_all(&work).unwrap();
    let mut total_ops = 0u64;
    let mut total_sent = 0u64;
    let mut n_tie = if oracle_only { 0 } else { args.n.min(12) };
    for round in 0..rounds {
        let mut rng = Rng::new(args.seed.wrapping_add(1000 * round as u64));
        let mut stats = engine::GenStats { generated: 0, frontend_rejected: 0, frontend_panicked: 0, reject_kinds: Default::default() };
        let mut cases = vec![];
        let mut inputs: BTreeMap<u64, Value> = BTreeMap::new();
        for i in 0..args.n {
            let kd = if i % 6 == 5 { 12 } else { 0 }; // some worlds whose execution panics: the panic must be the same too
            let tie = n_tie > 0;
            let c = engine::gen_case(&mut rng, &schema, &mut stats, if tie { 0 } else { kd });
            for f in &c.features {
                o.count(&format!("feat:{f}"));
            }
            let exp_ir = seq_compile(&schema, &c.query_text);
            let outcome = engine::run_impl(&c);
            let exp_rows = engine::show_outcome(&outcome);
            o.count(match &outcome {
                engine::Outcome::Rows(r) if r.is_empty() => "sequential:no-rows",
                engine::Outcome::Rows(_) => "sequential:rows",
                engine::Outcome::ArgError(_) => "sequential:arg-error",
                engine::Outcome::Panic(_) => "sequential:panic",
            });
            if tie {
                n_tie -= 1;
                let nontrivial = matches!(&outcome, engine::Outcome::Rows(r) if !r.is_empty())
                    || c.features.iter().filter(|f| f.starts_with("edge-") || f.starts_with("fold-") || f.starts_with("tag-")).count() >= 2;
                o.add(out::Case {
                    input: engine::case_input_json(&c),
                    coq: format!("run_exec {}", engine::case_coq_args(&c)),
                    imp: exp_rows.clone(),
                    nontrivial,
                    key: format!("{round}:{i}:{}", c.query_text),
                });
            }
            let idx = (round * args.n + i) as u64;
            inputs.insert(idx, engine::case_input_json(&c));
            cases.push(json!({"idx": idx, "query": c.query_text, "args": args_json(&c.args), "dataset": dataset_json(&c.dataset), "exp_ir": exp_ir, "exp_rows": exp_rows}));
        }
        // process-wide state keyed by argument VALUES (e.g. a cache of compiled regexes) only shows when
        // many executions with DIFFERENT arguments interleave: 300 small regex / not_regex runs over 6 patterns
        {
            let mut r2 = rng.fork();
            let dataset = world::gen_dataset(&mut r2, 7);
            let patterns = ["^a", "b$", "a.*b", "^$", "[A-Z]", "x y|ab"];
            for j in 0..300usize {
                let op = if j % 5 == 4 { "not_regex" } else { "regex" };
                let text = format!("query {{ Thing {{ name @filter(op: \"{op}\", value: [\"$p\"]) id @output(name: \"o1\") }} }}");
                let indexed = match trustfall_core::frontend::parse(&schema, &text) {
                    Ok(ix) => ix,
                    Err(_) => break,
                };
                let mut a: BTreeMap<Arc<str>, FieldValue> = BTreeMap::new();
                a.insert(Arc::from("p"), FieldValue::String(Arc::from(patterns[(j * 7 + j / 6) % patterns.len()])));
                let c = engine::EngineCase { dataset: dataset.clone(), query_text: text.clone(), indexed, args: Arc::new(a), features: Default::default(), var_hints: Default::default() };
                let exp_ir = seq_compile(&schema, &c.query_text);
                let exp_rows = engine::show_outcome(&engine::run_impl(&c));
                let idx = 1_000_000 + (round * 1000 + j) as u64;
                inputs.insert(idx, engine::case_input_json(&c));
                cases.push(json!({"idx": idx, "query": c.query_text, "args": args_json(&c.args), "dataset": dataset_json(&c.dataset), "exp_ir": exp_ir, "exp_rows": exp_rows}));
                o.count("family:concurrent-regex-arguments");
            }
        }
        let inp = work.join(format!("round{round}.json"));
        std::fs::write(&inp, json!({"schema": schema_text, "cases": cases}).to_string()).unwrap();
        let res = spawn_children(&exe, "c24child", &inp, &work, &format!("round{round}"), 1, &[threads.to_string()]);
        match &res[0] {
            Err(e) => o.oracle_fail(
                "the multi-threaded child process failed (abort / crash while compiling and executing concurrently)",
                json!({"round": round, "seed": args.seed.wrapping_add(1000 * round as u64), "threads": threads, "cases": args.n}),
                json!({"error": e}),
            ),
            Ok(text) => {
                let v: Value = serde_json::from_str(text).unwrap_or(json!({"mismatches": [{"what": "unreadable child output"}]}));
                total_ops += v["ops"].as_u64().unwrap_or(0);
                total_sent += v["sent"].as_u64().unwrap_or(0);
                for m in v["mismatches"].as_array().cloned().unwrap_or_default() {
                    let idx = m["idx"].as_u64().unwrap_or(u64::MAX);
                    let mut input = inputs.get(&idx).cloned().unwrap_or(json!({}));
                    input["round"] = json!(round);
                    input["threads"] = json!(threads);
                    o.oracle_fail(m["what"].as_str().unwrap_or("concurrent result differs from the sequential result"), input, m.clone());
                }
            }
        }
        o.count_n("gen:attempts", stats.generated);
    }
    if !args.rest.iter().any(|x| x == "--keep") {
        let _ = std::fs::remove_dir_all(&work);
    }
    o.extra.insert("threads".into(), json!(threads));
    o.extra.insert("rounds_each_in_a_cold_process".into(), json!(rounds));
    o.extra.insert("cases_per_round".into(), json!(args.n));
    o.extra.insert("concurrent_operations_compared".into(), json!(total_ops));
    o.extra.insert("compiled_queries_sent_between_threads".into(), json!(total_sent));
    o.extra.insert(
        "send_sync_asserted_at_compile_time".into(),
        json!(["Schema", "IndexedQuery", "IRQuery", "Type", "FieldValue", "EdgeParameters", "Arc<IndexedQuery>", "Arc<Schema>", "InterpretedQuery"]),
    );
}

fn main() {
    let argv: Vec<String> = std::env::args().collect();
    if argv.len() < 2 {
        eprintln!("usage: tfh_det c14|c24 [--seed S] [--n N] [--out DIR] ...");
        std::process::exit(2);
    }
    std::panic::set_hook(Box::new(|_| {}));
    match argv[1].as_str() {
        "c14child" => c14child(&argv[2], &argv[3]),
        "c24child" => c24child(&argv[2], &argv[3], argv.get(4).and_then(|x| x.parse().ok()).unwrap_or(8)),
        "c14" => {
            let args = parse_args(&argv[2..]);
            let mut o = out::Out::new(&args.out, "From TF Require Import Run.", 8);
            run_c14(&args, &mut o);
            o.finish();
        }
        "c24" => {
            let args = parse_args(&argv[2..]);
            let mut o = out::Out::new(&args.out, "From TF Require Import Run.", 8);
            run_c24(&args, &mut o);
            o.finish();
        }
        other => {
            eprintln!("unknown subcommand {other}");
            std::process::exit(2);
        }
    }
}
