//! tfh_hints — C04 (pruning by the engine's query hints never changes results) and C05
//! (required-properties hints list every property the engine requests).
//!
//! usage: tfh_hints <c04|c05> --seed S --n N --out DIR [--oracle-only]
//!
//! Every case is a generated world (dataset + query + arguments accepted by the real frontend).
//!
//! c05  tie:    `RequiredPropsAdapter` records `required_properties()` of every ResolveInfo /
//!              NeighborInfo it can reach and every `resolve_property(vid, property)` call; the
//!              model (`Hints.run_c05`) predicts the same lists and the same set of calls, and its
//!              static over-approximation `property_requests` must cover every observed call.
//!      oracle: every requested (vid, property) is listed by `required_properties` for that vid.
//! c04  tie:    `HintRecorder` renders, at every resolution point, the static candidate, whether a
//!              dynamic hint exists, the mandatory edges (followed two levels deep) and - inside
//!              resolve_neighbors - the dynamic candidates resolved on each context; the model
//!              (`Hints.run_c04`) predicts the same text.
//!      oracle: `PruningAdapter` (GraphAdapter + exactly the pruning DESIGN.md A.5 allows) returns
//!              the same rows, as a multiset, as the plain GraphAdapter.
#[path = "../coq.rs"]
mod coq;
#[path = "../engine.rs"]
mod engine;
#[path = "../irprint.rs"]
mod irprint;
#[path = "../out.rs"]
mod out;
#[path = "../qgen.rs"]
mod qgen;
#[path = "../rng.rs"]
mod rng;
#[path = "../show.rs"]
mod show;
#[path = "../world.rs"]
mod world;
#[path = "../hints_qgen.rs"]
mod hints_qgen;

use engine::*;
use irprint::{eid_n, vid_n};
use out::{Case, Out};
use rng::Rng;
use serde_json::json;
use show::{show_bool, show_fv};
use std::collections::{BTreeMap, BTreeSet};
use std::ops::Bound;
use std::panic::{catch_unwind, AssertUnwindSafe};
use std::path::PathBuf;
use std::sync::{Arc, Mutex};
use trustfall_core::interpreter::{
    Adapter, AsVertex, CandidateValue, ContextIterator, ContextOutcomeIterator, DataContext,
    ResolveEdgeInfo, ResolveInfo, VertexInfo, VertexIterator,
};
use trustfall_core::ir::{
    Argument, EdgeKind, EdgeParameters, FieldRef, FieldValue, IRFold, IRQueryComponent, IRVertex,
    IndexedQuery, Operation, Vid,
};
use world::*;

// ------------------------------------------------------------------ CLI

pub struct Args {
    pub seed: u64,
    pub n: usize,
    pub out: PathBuf,
    pub rest: Vec<String>,
}

fn parse_args(v: &[String]) -> Args {
    let mut a = Args { seed: 0, n: 100, out: PathBuf::from("."), rest: vec![] };
    let mut i = 0;
    while i < v.len() {
        match v[i].as_str() {
            "--seed" => {
                a.seed = v[i + 1].parse().unwrap();
                i += 2;
            }
            "--n" => {
                a.n = v[i + 1].parse().unwrap();
                i += 2;
            }
            "--out" => {
                a.out = PathBuf::from(&v[i + 1]);
                i += 2;
            }
            _ => {
                a.rest.push(v[i].clone());
                i += 1;
            }
        }
    }
    a
}

// ------------------------------------------------------------------ IR helpers

fn op_right<L, R>(op: &Operation<L, R>) -> Option<&R>
where
    L: std::fmt::Debug + Clone + PartialEq + Eq,
    R: std::fmt::Debug + Clone + PartialEq + Eq,
{
    match op {
        Operation::IsNull(_) | Operation::IsNotNull(_) => None,
        Operation::Equals(_, r)
        | Operation::NotEquals(_, r)
        | Operation::LessThan(_, r)
        | Operation::LessThanOrEqual(_, r)
        | Operation::GreaterThan(_, r)
        | Operation::GreaterThanOrEqual(_, r)
        | Operation::Contains(_, r)
        | Operation::NotContains(_, r)
        | Operation::OneOf(_, r)
        | Operation::NotOneOf(_, r)
        | Operation::HasPrefix(_, r)
        | Operation::NotHasPrefix(_, r)
        | Operation::HasSuffix(_, r)
        | Operation::NotHasSuffix(_, r)
        | Operation::HasSubstring(_, r)
        | Operation::NotHasSubstring(_, r)
        | Operation::RegexMatches(_, r)
        | Operation::NotRegexMatches(_, r) => Some(r),
        _ => None,
    }
}

fn walk_components<'a>(c: &'a IRQueryComponent, f: &mut dyn FnMut(&'a IRQueryComponent)) {
    f(c);
    for fold in c.folds.values() {
        walk_components(&fold.component, f);
    }
}

fn walk_folds<'a>(c: &'a IRQueryComponent, f: &mut dyn FnMut(&'a IRQueryComponent, &'a IRFold)) {
    for fold in c.folds.values() {
        f(c, fold);
        walk_folds(&fold.component, f);
    }
}

fn ir_vertex(q: &IndexedQuery, vid: Vid) -> &IRVertex {
    &q.vids[&vid].vertices[&vid]
}

/// `Hints.lazy_fold`: some post-filter has a variable operand
fn lazy_fold(f: &IRFold) -> bool {
    f.post_filters.iter().any(|pf| matches!(op_right(pf), Some(Argument::Variable(_))))
}

fn all_vids(c: &IRQueryComponent, vids: &mut BTreeSet<u64>, eids: &mut BTreeSet<u64>) {
    for v in c.vertices.keys() {
        vids.insert(vid_n(*v));
    }
    for e in c.edges.keys() {
        eids.insert(eid_n(*e));
    }
    for f in c.folds.values() {
        eids.insert(eid_n(f.eid));
        all_vids(&f.component, vids, eids);
    }
}

/// vids and eids inside folds whose elements may be pulled only partially (`Hints.lazy_vids`)
fn lazy_zone(c: &IRQueryComponent, vids: &mut BTreeSet<u64>, eids: &mut BTreeSet<u64>) {
    for f in c.folds.values() {
        if lazy_fold(f) {
            all_vids(&f.component, vids, eids);
        } else {
            lazy_zone(&f.component, vids, eids);
        }
    }
}

// ------------------------------------------------------------------ rendering (mirrors Hints.v / Cand.v)

fn show_bound(b: Bound<&FieldValue>) -> String {
    match b {
        Bound::Included(v) => format!("I({})", show_fv(v)),
        Bound::Excluded(v) => format!("E({})", show_fv(v)),
        Bound::Unbounded => "U".into(),
    }
}

fn show_cand(c: &CandidateValue<FieldValue>) -> String {
    match c {
        CandidateValue::Impossible => "Imp".into(),
        CandidateValue::Single(v) => format!("S({})", show_fv(v)),
        CandidateValue::Multiple(l) => {
            let parts: Vec<String> = l.iter().map(show_fv).collect();
            format!("M[{}]", parts.join(","))
        }
        CandidateValue::Range(r) => {
            format!("R[{},{},{}]", show_bound(r.start_bound()), show_bound(r.end_bound()), show_bool(r.null_included()))
        }
        CandidateValue::All => "All".into(),
        _ => "?".into(),
    }
}

/// `Cand.mem`
fn cand_mem(c: &CandidateValue<FieldValue>, x: &FieldValue) -> bool {
    match c {
        CandidateValue::Impossible => false,
        CandidateValue::Single(v) => x == v,
        CandidateValue::Multiple(l) => l.iter().any(|e| e == x),
        CandidateValue::Range(r) => r.contains(x),
        CandidateValue::All => true,
        _ => true,
    }
}

fn show_params(ps: &EdgeParameters) -> String {
    let parts: Vec<String> = ps.iter().map(|(k, v)| format!("{}={}", k, show_fv(v))).collect();
    parts.join(",")
}

fn quiet<T>(f: impl FnOnce() -> T) -> Result<T, String> {
    catch_unwind(AssertUnwindSafe(f)).map_err(|e| {
        if let Some(s) = e.downcast_ref::<&str>() {
            s.to_string()
        } else if let Some(s) = e.downcast_ref::<String>() {
            s.clone()
        } else {
            "<non-string panic>".to_string()
        }
    })
}

/// property names worth asking about at a vertex: every property of its type, plus whatever the
/// query filters on
fn prop_names(q: &IndexedQuery, vid: Vid) -> Vec<String> {
    let v = ir_vertex(q, vid);
    let mut s: BTreeSet<String> = BTreeSet::new();
    if let Some(td) = type_defs().into_iter().find(|t| t.name == v.type_name.as_ref()) {
        for p in td.props {
            s.insert(p.name.to_string());
        }
    }
    s.insert("__typename".to_string());
    for f in &v.filters {
        s.insert(irprint_left_name(f));
    }
    s.into_iter().collect()
}

fn irprint_left_name(f: &Operation<trustfall_core::ir::LocalField, Argument>) -> String {
    op_left(f).field_name.to_string()
}

fn op_left<L, R>(op: &Operation<L, R>) -> &L
where
    L: std::fmt::Debug + Clone + PartialEq + Eq,
    R: std::fmt::Debug + Clone + PartialEq + Eq,
{
    match op {
        Operation::IsNull(l) | Operation::IsNotNull(l) => l,
        Operation::Equals(l, _)
        | Operation::NotEquals(l, _)
        | Operation::LessThan(l, _)
        | Operation::LessThanOrEqual(l, _)
        | Operation::GreaterThan(l, _)
        | Operation::GreaterThanOrEqual(l, _)
        | Operation::Contains(l, _)
        | Operation::NotContains(l, _)
        | Operation::OneOf(l, _)
        | Operation::NotOneOf(l, _)
        | Operation::HasPrefix(l, _)
        | Operation::NotHasPrefix(l, _)
        | Operation::HasSuffix(l, _)
        | Operation::NotHasSuffix(l, _)
        | Operation::HasSubstring(l, _)
        | Operation::NotHasSubstring(l, _)
        | Operation::RegexMatches(l, _)
        | Operation::NotRegexMatches(l, _) => l,
        _ => panic!("unknown Operation variant"),
    }
}

fn edge_names(q: &IndexedQuery, vid: Vid) -> Vec<String> {
    let v = ir_vertex(q, vid);
    let mut s: BTreeSet<String> = BTreeSet::new();
    if let Some(td) = type_defs().into_iter().find(|t| t.name == v.type_name.as_ref()) {
        for e in td.edges {
            s.insert(e.name.to_string());
        }
    }
    let comp = &q.vids[&vid];
    for e in comp.edges.values() {
        if e.from_vid == vid {
            s.insert(e.edge_name.to_string());
        }
    }
    for f in comp.folds.values() {
        if f.from_vid == vid {
            s.insert(f.edge_name.to_string());
        }
    }
    s.into_iter().collect()
}

#[derive(Default)]
struct TreeStats {
    static_hints: u64,
    dynamic_hints: u64,
    mandatory_edges: u64,
    hint_panics: Vec<String>,
}

/// `Hints.render_tree`
fn render_tree<I: VertexInfo, V: AsVertex<u64> + 'static>(
    inner: &GraphAdapter,
    q: &IndexedQuery,
    info: &I,
    ctx: Option<&DataContext<V>>,
    fuel: usize,
    stats: &mut TreeStats,
) -> String {
    let vid = info.vid();
    let mut s = format!("v{}{{", vid_n(vid));
    for p in prop_names(q, vid) {
        let st = quiet(|| info.statically_required_property(&p));
        let dy = quiet(|| info.dynamically_required_property(&p));
        if matches!(st, Ok(None)) && matches!(dy, Ok(None)) {
            continue;
        }
        let st_s = match &st {
            Err(m) => {
                stats.hint_panics.push(m.clone());
                "PANIC".to_string()
            }
            Ok(None) => "N".to_string(),
            Ok(Some(c)) => {
                stats.static_hints += 1;
                format!("S({})", show_cand(c))
            }
        };
        let dy_s = match dy {
            Err(m) => {
                stats.hint_panics.push(m);
                "PANIC".to_string()
            }
            Ok(None) => "N".to_string(),
            Ok(Some(d)) => {
                stats.dynamic_hints += 1;
                match ctx {
                    None => "D".to_string(),
                    Some(c) => {
                        let c2 = c.clone();
                        let r = quiet(move || {
                            let it: ContextIterator<'static, V> = Box::new(std::iter::once(c2));
                            let mut out = d.resolve(inner, it);
                            out.next().map(|(_, cand)| cand)
                        });
                        match r {
                            Ok(Some(cand)) => format!("D({})", show_cand(&cand)),
                            Ok(None) => "D(?)".to_string(),
                            Err(m) => {
                                stats.hint_panics.push(m);
                                "D(PANIC)".to_string()
                            }
                        }
                    }
                }
            }
        };
        s.push_str(&format!("{p}:{st_s}/{dy_s};"));
    }
    for name in edge_names(q, vid) {
        let es = quiet(|| info.edges_with_name(&name).collect::<Vec<_>>());
        let ms = quiet(|| info.mandatory_edges_with_name(&name).collect::<Vec<_>>());
        match (es, ms) {
            (Ok(es), Ok(ms)) => {
                if es.is_empty() {
                    continue;
                }
                let mut parts = vec![];
                for e in &es {
                    let mut t = format!(
                        "e{}({}){}",
                        eid_n(e.eid()),
                        show_params(e.parameters()),
                        if e.is_mandatory() { "m" } else { "o" }
                    );
                    if ms.iter().any(|m| m.eid() == e.eid()) {
                        stats.mandatory_edges += 1;
                        t.push('!');
                        if fuel > 0 {
                            t.push_str(&render_tree(inner, q, e.destination(), ctx, fuel - 1, stats));
                        }
                    }
                    parts.push(t);
                }
                s.push_str(&format!("{name}[{}]", parts.join(",")));
            }
            (a, b) => {
                if let Err(m) = a {
                    stats.hint_panics.push(m);
                }
                if let Err(m) = b {
                    stats.hint_panics.push(m);
                }
                s.push_str(&format!("{name}[PANIC]"));
            }
        }
    }
    s.push('}');
    s
}

const LOOKAHEAD: usize = 2;

// ------------------------------------------------------------------ the recording / pruning adapter

#[derive(Clone, Copy, PartialEq, Eq)]
enum Mode {
    /// C05: record required_properties and resolve_property calls
    Required,
    /// C04 tie: record hint renderings
    Record,
    /// C04 oracle: prune as DESIGN.md A.5 allows (`skip_ge`: ignore dynamic hints built from `>=`)
    Prune { skip_ge: bool },
}

#[derive(Default)]
struct Shared {
    // C05
    required: BTreeMap<u64, BTreeSet<String>>, // vid -> the distinct rendered lists reported for it
    requests: Vec<(u64, String)>,
    // C04
    infos: BTreeMap<(u64, bool), String>,
    nbr_calls: BTreeMap<u64, usize>,
    sites: BTreeMap<(u64, u64), Vec<String>>,
    stats: TreeStats,
    dropped: u64,
}

#[derive(Clone)]
struct HintAdapter {
    inner: GraphAdapter,
    q: Arc<IndexedQuery>,
    mode: Mode,
    st: Arc<Mutex<Shared>>,
}

fn required_names<I: VertexInfo>(info: &I) -> String {
    let mut v: Vec<String> = info.required_properties().map(|r| r.name.to_string()).collect();
    v.sort();
    v.join(",")
}

impl HintAdapter {
    fn new(d: &Dataset, q: Arc<IndexedQuery>, mode: Mode) -> Self {
        HintAdapter { inner: GraphAdapter::new(d.clone()), q, mode, st: Arc::new(Mutex::new(Shared::default())) }
    }

    fn note_required<I: VertexInfo>(&self, info: &I) {
        let names = required_names(info);
        self.st.lock().unwrap().required.entry(vid_n(info.vid())).or_default().insert(names);
    }

    fn note_info(&self, info: &ResolveInfo, completed: bool) {
        let key = (vid_n(info.vid()), completed);
        if self.st.lock().unwrap().infos.contains_key(&key) {
            return;
        }
        let mut stats = TreeStats::default();
        let s = render_tree::<ResolveInfo, u64>(&self.inner, &self.q, info, None, LOOKAHEAD, &mut stats);
        let mut st = self.st.lock().unwrap();
        st.infos.insert(key, s);
        merge_stats(&mut st.stats, stats);
    }

    /// DESIGN.md A.5: may the produced vertex `n` be kept, judging by the hints of `info`?
    fn admissible<I: VertexInfo, V: AsVertex<u64> + 'static>(
        &self,
        n: u64,
        info: &I,
        ctx: Option<&DataContext<V>>,
        depth: usize,
        skip_ge: bool,
    ) -> bool {
        let tname = match self.inner.d.vtype.get(&n) {
            Some(t) => *t,
            None => return true,
        };
        let td = type_def(tname);
        for p in &td.props {
            let value = self.inner.prop(p.name, n);
            if let Some(k) = info.statically_required_property(p.name) {
                if !cand_mem(&k, &value) {
                    return false;
                }
            }
            if let Some(d) = info.dynamically_required_property(p.name) {
                if skip_ge && format!("{d:?}").contains("operation: GreaterThanOrEqual") {
                    continue;
                }
                if let Some(c) = ctx {
                    let it: ContextIterator<'static, V> = Box::new(std::iter::once(c.clone()));
                    let mut out = d.resolve(&self.inner, it);
                    if let Some((_, cand)) = out.next() {
                        if !cand_mem(&cand, &value) {
                            return false;
                        }
                    }
                }
            }
        }
        for e in &td.edges {
            for me in info.mandatory_edges_with_name(e.name) {
                let nbrs = self.inner.nbrs(e.name, me.parameters(), n);
                let none_admissible = if depth < LOOKAHEAD {
                    nbrs.iter().all(|m| !self.admissible(*m, me.destination(), ctx, depth + 1, skip_ge))
                } else {
                    nbrs.is_empty()
                };
                if none_admissible {
                    return false;
                }
            }
        }
        true
    }
}

fn merge_stats(a: &mut TreeStats, b: TreeStats) {
    a.static_hints += b.static_hints;
    a.dynamic_hints += b.dynamic_hints;
    a.mandatory_edges += b.mandatory_edges;
    a.hint_panics.extend(b.hint_panics);
}

impl Adapter<'static> for HintAdapter {
    type Vertex = u64;

    fn resolve_starting_vertices(
        &self,
        edge_name: &Arc<str>,
        parameters: &EdgeParameters,
        resolve_info: &ResolveInfo,
    ) -> VertexIterator<'static, Self::Vertex> {
        let starts = self.inner.starts(edge_name, parameters);
        match self.mode {
            Mode::Required => {
                self.note_required(resolve_info);
                Box::new(starts.into_iter())
            }
            Mode::Record => {
                self.note_info(resolve_info, false);
                Box::new(starts.into_iter())
            }
            Mode::Prune { skip_ge } => {
                let mut kept = vec![];
                for v in starts {
                    if self.admissible::<ResolveInfo, u64>(v, resolve_info, None, 0, skip_ge) {
                        kept.push(v);
                    } else {
                        self.st.lock().unwrap().dropped += 1;
                    }
                }
                Box::new(kept.into_iter())
            }
        }
    }

    fn resolve_property<V: AsVertex<Self::Vertex> + 'static>(
        &self,
        contexts: ContextIterator<'static, V>,
        type_name: &Arc<str>,
        property_name: &Arc<str>,
        resolve_info: &ResolveInfo,
    ) -> ContextOutcomeIterator<'static, V, FieldValue> {
        match self.mode {
            Mode::Required => {
                self.note_required(resolve_info);
                self.st.lock().unwrap().requests.push((vid_n(resolve_info.vid()), property_name.to_string()));
            }
            Mode::Record => self.note_info(resolve_info, true),
            Mode::Prune { .. } => {}
        }
        self.inner.resolve_property(contexts, type_name, property_name, resolve_info)
    }

    fn resolve_neighbors<V: AsVertex<Self::Vertex> + 'static>(
        &self,
        contexts: ContextIterator<'static, V>,
        type_name: &Arc<str>,
        edge_name: &Arc<str>,
        parameters: &EdgeParameters,
        resolve_info: &ResolveEdgeInfo,
    ) -> ContextOutcomeIterator<'static, V, VertexIterator<'static, Self::Vertex>> {
        match self.mode {
            Mode::Required => {
                self.note_required(&resolve_info.destination());
                self.inner.resolve_neighbors(contexts, type_name, edge_name, parameters, resolve_info)
            }
            Mode::Record => {
                let eid = eid_n(resolve_info.eid());
                let depth = match &self.q.eids[&resolve_info.eid()] {
                    EdgeKind::Regular(e) => e.recursive.as_ref().map(|r| usize::from(r.depth)).unwrap_or(1),
                    EdgeKind::Fold(_) => 1,
                };
                let level = {
                    let mut st = self.st.lock().unwrap();
                    let k = st.nbr_calls.entry(eid).or_insert(0);
                    let level = (*k % depth) as u64 + 1;
                    *k += 1;
                    st.sites.entry((eid, level)).or_default();
                    level
                };
                let me = self.clone();
                let dest = quiet(|| resolve_info.destination());
                let recorded: ContextIterator<'static, V> = Box::new(contexts.map(move |ctx| {
                    let mut stats = TreeStats::default();
                    let rec = match &dest {
                        Err(_) => "PANIC".to_string(),
                        Ok(dest) => {
                            let a = match ctx.active_vertex::<u64>() {
                                Some(v) => format!("a{v}"),
                                None => "a-".to_string(),
                            };
                            format!("{a}:{}", render_tree(&me.inner, &me.q, dest, Some(&ctx), LOOKAHEAD, &mut stats))
                        }
                    };
                    let mut st = me.st.lock().unwrap();
                    st.sites.entry((eid, level)).or_default().push(rec);
                    merge_stats(&mut st.stats, stats);
                    ctx
                }));
                self.inner.resolve_neighbors(recorded, type_name, edge_name, parameters, resolve_info)
            }
            Mode::Prune { skip_ge } => {
                let me = self.clone();
                let dest = resolve_info.destination();
                let name = edge_name.clone();
                let ps = parameters.clone();
                Box::new(contexts.map(move |ctx| {
                    let ns: Vec<u64> = match ctx.active_vertex::<u64>() {
                        Some(v) => me.inner.nbrs(&name, &ps, *v),
                        None => vec![],
                    };
                    let mut kept = vec![];
                    for n in ns {
                        if me.admissible(n, &dest, Some(&ctx), 0, skip_ge) {
                            kept.push(n);
                        } else {
                            me.st.lock().unwrap().dropped += 1;
                        }
                    }
                    let it: VertexIterator<'static, u64> = Box::new(kept.into_iter());
                    (ctx, it)
                }))
            }
        }
    }

    fn resolve_coercion<V: AsVertex<Self::Vertex> + 'static>(
        &self,
        contexts: ContextIterator<'static, V>,
        type_name: &Arc<str>,
        coerce_to_type: &Arc<str>,
        resolve_info: &ResolveInfo,
    ) -> ContextOutcomeIterator<'static, V, bool> {
        match self.mode {
            Mode::Required => self.note_required(resolve_info),
            Mode::Record => self.note_info(resolve_info, false),
            Mode::Prune { .. } => {}
        }
        self.inner.resolve_coercion(contexts, type_name, coerce_to_type, resolve_info)
    }
}

// ------------------------------------------------------------------ case generation

/// `engine::gen_case` with the biased query generator (hints_qgen.rs); every third world still
/// comes from the shared generator
fn gen_world(rng: &mut Rng, schema: &trustfall_core::schema::Schema, stats: &mut GenStats) -> EngineCase {
    if rng.chance(1, 3) {
        return engine::gen_case(rng, schema, stats, 0);
    }
    loop {
        stats.generated += 1;
        let mut r2 = rng.fork();
        let dataset = gen_dataset(&mut r2, 10);
        let mut g = hints_qgen::QGen::new(&mut r2);
        g.p_known_defects = 0;
        let go = g.gen_query();
        let parsed = catch_unwind(AssertUnwindSafe(|| trustfall_core::frontend::parse(schema, &go.text)));
        match parsed {
            Err(_) => {
                stats.frontend_panicked += 1;
                continue;
            }
            Ok(Err(e)) => {
                stats.frontend_rejected += 1;
                let k = format!("{e:?}");
                let k = k.split(|c: char| c == '(' || c == '{' || c == ' ').next().unwrap_or("?").to_string();
                *stats.reject_kinds.entry(k).or_insert(0) += 1;
                continue;
            }
            Ok(Ok(indexed)) => {
                let pool = qgen::value_pool(&dataset);
                let args = qgen::gen_args(&mut r2, &indexed.ir_query.variables, &go.var_hints, 0, &pool);
                return EngineCase {
                    dataset,
                    query_text: go.text,
                    indexed,
                    args: Arc::new(args),
                    features: go.features,
                    var_hints: go.var_hints,
                };
            }
        }
    }
}

fn count_features(out: &mut Out, c: &EngineCase) {
    for f in &c.features {
        out.count(&format!("feat:{f}"));
    }
}

fn finish_stats(out: &mut Out, stats: GenStats) {
    out.count_n("gen:attempts", stats.generated);
    out.count_n("gen:frontend-rejected", stats.frontend_rejected);
    out.count_n("gen:frontend-panicked", stats.frontend_panicked);
    for (k, v) in stats.reject_kinds {
        out.count_n(&format!("reject:{k}"), v);
    }
}

fn sorted_rows(rows: &[Row]) -> Vec<String> {
    let mut v: Vec<String> = rows.iter().map(show_row).collect();
    v.sort();
    v
}

// ------------------------------------------------------------------ C05

fn run_c05(seed: u64, n: usize, out: &mut Out) {
    let mut rng = Rng::new(seed);
    let schema = world::schema();
    let mut stats = GenStats { generated: 0, frontend_rejected: 0, frontend_panicked: 0, reject_kinds: Default::default() };
    for i in 0..n {
        let c = gen_world(&mut rng, &schema, &mut stats);
        count_features(out, &c);
        let ad = Arc::new(HintAdapter::new(&c.dataset, c.indexed.clone(), Mode::Required));
        let o = run_with(ad.clone(), c.indexed.clone(), c.args.clone());
        let st = ad.st.lock().unwrap();
        let input = case_input_json(&c);
        let (mut lz_vids, mut lz_eids) = (BTreeSet::new(), BTreeSet::new());
        lazy_zone(&c.indexed.ir_query.root_component, &mut lz_vids, &mut lz_eids);

        // ---- oracle: every requested (vid, property) is listed for that vid
        // (F11 - imported tags / fold-count filter tags missing from the list - is repaired in /repo:
        // every unlisted request is a violation)
        let mut uncovered = false;
        let mut seen_req: BTreeSet<(u64, String)> = BTreeSet::new();
        for (vid, prop) in &st.requests {
            if !seen_req.insert((*vid, prop.clone())) || prop == "__typename" {
                continue;
            }
            let lists = st.required.get(vid).cloned().unwrap_or_default();
            let listed = !lists.is_empty() && lists.iter().all(|l| l.split(',').any(|x| x == prop));
            if !listed {
                if !uncovered {
                    uncovered = true;
                    let detail = json!({"vid": vid, "property": prop, "required_properties": lists});
                    out.oracle_fail("resolve_property was called for a property missing from required_properties()", input.clone(), detail);
                }
            }
        }
        for (vid, lists) in &st.required {
            if lists.len() > 1 {
                out.oracle_fail(
                    "required_properties() differs between info objects of the same vertex",
                    input.clone(),
                    json!({"vid": vid, "lists": lists}),
                );
            }
        }
        out.count(if !uncovered { "oracle:covered" } else { "oracle:uncovered" });

        // ---- tie
        let imp = match &o {
            Outcome::Panic(_) => "PANIC".to_string(),
            Outcome::ArgError(_) => "ARGERR".to_string(),
            Outcome::Rows(_) => {
                let req: Vec<String> = st
                    .required
                    .iter()
                    .map(|(vid, lists)| format!("{}:{}", vid, lists.iter().cloned().collect::<Vec<_>>().join("~")))
                    .collect();
                let calls: Vec<String> = seen_req
                    .iter()
                    .filter(|(vid, _)| !lz_vids.contains(vid))
                    .map(|(vid, p)| format!("{vid}.{p}"))
                    .collect();
                format!("REQ:{}@CALLS:{}@SUP:T@OBS:T@WF:T", req.join(";"), calls.join(","))
            }
        };
        out.count(match &o {
            Outcome::Rows(r) if r.is_empty() => "outcome:no-rows",
            Outcome::Rows(_) => "outcome:rows",
            Outcome::ArgError(_) => "outcome:arg-error",
            Outcome::Panic(_) => "outcome:panic",
        });
        let seen: Vec<String> = st.required.keys().map(|v| format!("{v}%N")).collect();
        let observed: Vec<String> = seen_req.iter().map(|(v, p)| format!("({v}%N, {})", coq::cstr(p))).collect();
        let nontrivial = c.features.iter().any(|f| f.starts_with("tag-") || f.starts_with("edge-fold") || f.starts_with("fold-"))
            && seen_req.len() >= 2;
        let mut input2 = input.clone();
        if let Outcome::Panic(m) = &o {
            input2["impl_panic"] = json!(m.chars().take(160).collect::<String>());
        }
        out.add(Case {
            input: input2,
            coq: format!("run_c05 {} {} {}", case_coq_args(&c), coq::clist(&seen), coq::clist(&observed)),
            imp,
            nontrivial,
            key: format!("{i}:{}", c.query_text),
        });
    }
    finish_stats(out, stats);
}

// ------------------------------------------------------------------ C04

/// K-ge-tag-hint (syntactic part): some vertex filter is `>=` against a tag
fn class_ge_tag(c: &EngineCase) -> bool {
    let mut hit = false;
    walk_components(&c.indexed.ir_query.root_component, &mut |comp| {
        for v in comp.vertices.values() {
            for f in &v.filters {
                if let Operation::GreaterThanOrEqual(_, Argument::Tag(_)) = f {
                    hit = true;
                }
            }
        }
    });
    hit
}

fn run_c04(seed: u64, n: usize, oracle_only: bool, out: &mut Out) {
    let mut rng = Rng::new(seed);
    let schema = world::schema();
    let mut stats = GenStats { generated: 0, frontend_rejected: 0, frontend_panicked: 0, reject_kinds: Default::default() };
    // next to the generated worlds: a template family in which a tag defined INSIDE an @optional scope
    // (a property tag or a fold-count tag) is the operand of a filter on a later vertex, so that the
    // dynamic hint is resolved on rows where the optional scope does not exist (the filter passes there)
    let optional_tag_family = (n / 5).max(40);
    for i in 0..(n + optional_tag_family) {
        let c = if i < n {
            gen_world(&mut rng, &schema, &mut stats)
        } else {
            let mut r2 = rng.fork();
            let root = *r2.pick(&["Thing", "Item", "Box", "Gadget"]);
            let e1 = *r2.pick(&["parent", "next(hi: 4)", "next(lo: 3)", "link"]);
            let e2 = *r2.pick(&["next", "link", "next(hi: 6)"]);
            let op = *r2.pick(&["=", "!=", "<", "<=", ">", ">=", "=", "!="]);
            let (tagged, filtered) = match r2.range(0, 4) {
                0 => ("id @tag(name: \"t\")".to_string(), format!("id @filter(op: \"{op}\", value: [\"%t\"])")),
                1 => ("score @tag(name: \"t\")".to_string(), format!("id @filter(op: \"{op}\", value: [\"%t\"])")),
                2 => ("nums @tag(name: \"t\")".to_string(), format!("id @filter(op: \"{}\", value: [\"%t\"])", r2.pick(&["one_of", "not_one_of"]))),
                3 => ("link @fold @transform(op: \"count\") @tag(name: \"t\")".to_string(), format!("id @filter(op: \"{op}\", value: [\"%t\"])")),
                _ => ("name @tag(name: \"t\")".to_string(), format!("name @filter(op: \"{}\", value: [\"%t\"])", r2.pick(&["=", "!=", "has_prefix", "has_substring"]))),
            };
            let text = if r2.chance(1, 3) {
                // two tag filters on ONE property, in either order of operator priority: the dynamic hint must
                // pair each operator with its own tag
                let ops = ["=", "!=", "<", "<=", ">", "one_of"];
                let o1 = *r2.pick(&ops);
                let o2 = *r2.pick(&ops);
                let f = |o: &str, t: &str| if o == "one_of" { format!("@filter(op: \"one_of\", value: [\"%l{t}\"])") } else { format!("@filter(op: \"{o}\", value: [\"%{t}\"])") };
                // declare exactly the tags that are used (an unused tag is a frontend error)
                let d1 = if o1 == "one_of" { "nums @tag(name: \"lt1\")" } else { "id @tag(name: \"t1\")" };
                let d2 = if o2 == "one_of" { "nums @tag(name: \"lt2\")" } else { "score @tag(name: \"t2\")" };
                let in_root = o2 != "one_of" && r2.chance(1, 2);
                let (d2_root, d2_opt) = if in_root { (d2.to_string(), "name @output(name: \"on\")".to_string()) } else { (String::new(), d2.to_string()) };
                format!("query {{ {root} {{ name @output(name: \"r\") {d1} {d2_root} {e1} @optional {{ {d2_opt} }} {e2} {{ id {} {} @output(name: \"x\") }} }} }}", f(o1, "t1"), f(o2, "t2"))
            } else {
                format!("query {{ {root} {{ id @output(name: \"r\") {e1} @optional {{ {tagged} }} {e2} {{ {filtered} id @output(name: \"x\") }} }} }}")
            };
            let indexed = match trustfall_core::frontend::parse(&schema, &text) {
                Ok(ix) => ix,
                Err(e) => {
                    out.oracle_fail("optional-tag template was rejected by the frontend", json!({"query": text}), json!({"error": format!("{e:?}")}));
                    continue;
                }
            };
            out.count("family:tag-from-optional-scope");
            EngineCase {
                dataset: world::gen_dataset(&mut r2, 8),
                query_text: text,
                indexed,
                args: Arc::new(Default::default()),
                features: Default::default(),
                var_hints: Default::default(),
            }
        };
        count_features(out, &c);
        let input = case_input_json(&c);
        let plain = run_impl(&c);

        // ---- oracle: pruning by the hints is invisible
        let pr = Arc::new(HintAdapter::new(&c.dataset, c.indexed.clone(), Mode::Prune { skip_ge: false }));
        let pruned = run_with(pr.clone(), c.indexed.clone(), c.args.clone());
        let dropped = pr.st.lock().unwrap().dropped;
        out.count_n("prune:dropped-vertices", dropped);
        if dropped > 0 {
            out.count("prune:cases-with-drops");
        }
        match (&plain, &pruned) {
            (Outcome::Rows(a), Outcome::Rows(b)) => {
                if sorted_rows(a) != sorted_rows(b) {
                    // is the difference due to `>=`-with-tag hints alone?
                    let pr2 = Arc::new(HintAdapter::new(&c.dataset, c.indexed.clone(), Mode::Prune { skip_ge: true }));
                    let pruned2 = run_with(pr2, c.indexed.clone(), c.args.clone());
                    let ge_only = matches!(&pruned2, Outcome::Rows(b2) if sorted_rows(a) == sorted_rows(b2));
                    let detail = json!({"plain": show_outcome(&plain), "pruned": show_outcome(&pruned), "dropped": dropped});
                    if ge_only && class_ge_tag(&c) {
                        out.oracle_fail_class("K-ge-tag-hint", "pruning by the query hints changed the result rows", input.clone(), detail);
                    } else {
                        out.oracle_fail("pruning by the query hints changed the result rows", input.clone(), detail);
                    }
                    out.count("oracle:rows-differ");
                } else {
                    out.count("oracle:rows-equal");
                }
            }
            (Outcome::Rows(_), Outcome::Panic(m)) => {
                let detail = json!({"plain": show_outcome(&plain), "pruned_panic": m.chars().take(300).collect::<String>()});
                // (F17, a null @tag value, was repaired in /repo: any panic here is a violation)
                out.oracle_fail("the pruning adapter panicked while using the hints", input.clone(), detail);
                out.count("oracle:pruned-panic");
            }
            (Outcome::Panic(_), _) => out.count("oracle:plain-panic"),
            _ => out.count("oracle:other"),
        }
        if oracle_only {
            continue;
        }

        // ---- tie: the hint values at every resolution point
        let rec = Arc::new(HintAdapter::new(&c.dataset, c.indexed.clone(), Mode::Record));
        let o = run_with(rec.clone(), c.indexed.clone(), c.args.clone());
        let st = rec.st.lock().unwrap();
        let (mut lz_vids, mut lz_eids) = (BTreeSet::new(), BTreeSet::new());
        lazy_zone(&c.indexed.ir_query.root_component, &mut lz_vids, &mut lz_eids);
        let imp = match &o {
            Outcome::Panic(_) => "PANIC".to_string(),
            Outcome::ArgError(_) => "ARGERR".to_string(),
            Outcome::Rows(_) => {
                let infos: Vec<String> = st
                    .infos
                    .iter()
                    .map(|((vid, completed), s)| format!("R{}{}={}", vid, if *completed { "c" } else { "i" }, s))
                    .collect();
                let sites: Vec<String> = st
                    .sites
                    .iter()
                    .filter(|((eid, _), _)| !lz_eids.contains(eid))
                    .map(|((eid, level), recs)| format!("e{}.{}={}", eid, level, recs.join("|")))
                    .collect();
                format!("INFO:{}@SITES:{}", infos.join("&"), sites.join("#"))
            }
        };
        if let (Outcome::Rows(a), Outcome::Rows(b)) = (&plain, &o) {
            if sorted_rows(a) != sorted_rows(b) {
                out.oracle_fail("the recording adapter changed the rows (harness bug)", input.clone(), json!({}));
            }
        }
        out.count_n("hints:static", st.stats.static_hints);
        out.count_n("hints:dynamic", st.stats.dynamic_hints);
        out.count_n("hints:mandatory-edges", st.stats.mandatory_edges);
        out.count_n("hints:panics", st.stats.hint_panics.len() as u64);
        // a panic while merely ASKING for / resolving a hint on a live context
        if let Some(m) = st.stats.hint_panics.first() {
            let detail = json!({"panic": m.chars().take(300).collect::<String>()});
            out.oracle_fail("a hint query panicked", input.clone(), detail);
        }
        let keys: Vec<String> = st.infos.keys().map(|(v, c)| format!("({v}%N, {})", coq::cbool(*c))).collect();
        let nontrivial = st.stats.static_hints + st.stats.dynamic_hints + st.stats.mandatory_edges > 0;
        let mut input2 = input.clone();
        if let Outcome::Panic(m) = &o {
            input2["impl_panic"] = json!(m.chars().take(160).collect::<String>());
        }
        out.add(Case {
            input: input2,
            coq: format!("run_c04 {} {}", case_coq_args(&c), coq::clist(&keys)),
            imp,
            nontrivial,
            key: format!("{i}:{}", c.query_text),
        });
    }
    finish_stats(out, stats);
}

fn main() {
    let argv: Vec<String> = std::env::args().collect();
    if argv.len() < 2 {
        eprintln!("usage: tfh_hints <c04|c05> [--seed S] [--n N] [--out DIR] [--oracle-only]");
        std::process::exit(2);
    }
    let args = parse_args(&argv[2..]);
    std::panic::set_hook(Box::new(|_| {}));
    let oracle_only = args.rest.iter().any(|x| x == "--oracle-only");
    match argv[1].as_str() {
        "c04" => {
            let mut o = Out::new(&args.out, "From TF Require Import Hints Run.", 40);
            run_c04(args.seed, args.n, oracle_only, &mut o);
            o.finish();
        }
        "c05" => {
            let mut o = Out::new(&args.out, "From TF Require Import Hints Run.", 40);
            run_c05(args.seed, args.n, &mut o);
            o.finish();
        }
        "probe" => {
            // tfh_hints probe --out <query-file> --seed S : one hand-written query on a seeded dataset
            let text = std::fs::read_to_string(&args.out).expect("query file");
            probe(&text, args.seed);
        }
        other => {
            eprintln!("unknown subcommand {other}");
            std::process::exit(2);
        }
    }
}

fn probe(text: &str, seed: u64) {
    let schema = world::schema();
    let indexed = trustfall_core::frontend::parse(&schema, text).expect("query must parse");
    let mut rng = Rng::new(seed);
    let dataset = gen_dataset(&mut rng, 6);
    let c = EngineCase {
        dataset,
        query_text: text.to_string(),
        indexed,
        args: Arc::new(BTreeMap::new()),
        features: Default::default(),
        var_hints: Default::default(),
    };
    println!("IR: {}", irprint::query(&c.indexed.ir_query));
    println!("DATASET: {}", c.dataset.to_coq());
    println!("DATASET-JSON: {}", c.dataset.to_json());
    let plain = run_impl(&c);
    println!("PLAIN : {}", show_outcome(&plain));
    let ad = Arc::new(HintAdapter::new(&c.dataset, c.indexed.clone(), Mode::Required));
    let _ = run_with(ad.clone(), c.indexed.clone(), c.args.clone());
    {
        let st = ad.st.lock().unwrap();
        println!("REQUIRED: {:?}", st.required);
        let reqs: BTreeSet<(u64, String)> = st.requests.iter().cloned().collect();
        println!("REQUESTS: {:?}", reqs);
    }
    let pr = Arc::new(HintAdapter::new(&c.dataset, c.indexed.clone(), Mode::Prune { skip_ge: false }));
    let pruned = run_with(pr.clone(), c.indexed.clone(), c.args.clone());
    println!("PRUNED: {} (dropped {})", show_outcome(&pruned), pr.st.lock().unwrap().dropped);
    if let Outcome::Panic(m) = &pruned {
        println!("PRUNED-PANIC: {m}");
    }
    let rec = Arc::new(HintAdapter::new(&c.dataset, c.indexed.clone(), Mode::Record));
    let _ = run_with(rec.clone(), c.indexed.clone(), c.args.clone());
    let st = rec.st.lock().unwrap();
    for (k, v) in &st.infos {
        println!("INFO {:?}: {}", k, v);
    }
    for (k, v) in &st.sites {
        println!("SITE {:?}: {}", k, v.join(" | "));
    }
    for m in &st.stats.hint_panics {
        println!("HINT-PANIC: {m}");
    }
    // every edge (mandatory or not) followed from the root's ResolveInfo, to look at what the
    // non-mandatory look-ahead API reports
    let q = InterpretedQueryProbe { q: c.indexed.clone() };
    q.dump(&c);
}

struct InterpretedQueryProbe {
    q: Arc<IndexedQuery>,
}

struct DumpAdapter {
    inner: GraphAdapter,
    q: Arc<IndexedQuery>,
}

fn dump_all<I: VertexInfo>(q: &IndexedQuery, info: &I, depth: usize, path: &str) {
    let vid = info.vid();
    for p in prop_names(q, vid) {
        if let Some(c) = info.statically_required_property(&p) {
            println!("ALL-EDGES {path} v{} {p}: static {}", vid_n(vid), show_cand(&c));
        }
    }
    if depth == 0 {
        return;
    }
    for name in edge_names(q, vid) {
        for e in info.edges_with_name(&name) {
            let path2 = format!("{path}/{name}(e{}{})", eid_n(e.eid()), if e.is_mandatory() { "m" } else { "o" });
            dump_all(q, e.destination(), depth - 1, &path2);
        }
    }
}

impl Adapter<'static> for DumpAdapter {
    type Vertex = u64;
    fn resolve_starting_vertices(&self, edge_name: &Arc<str>, parameters: &EdgeParameters, resolve_info: &ResolveInfo) -> VertexIterator<'static, u64> {
        dump_all(&self.q, resolve_info, 3, "R1");
        self.inner.resolve_starting_vertices(edge_name, parameters, resolve_info)
    }
    fn resolve_property<V: AsVertex<u64> + 'static>(&self, contexts: ContextIterator<'static, V>, type_name: &Arc<str>, property_name: &Arc<str>, resolve_info: &ResolveInfo) -> ContextOutcomeIterator<'static, V, FieldValue> {
        self.inner.resolve_property(contexts, type_name, property_name, resolve_info)
    }
    fn resolve_neighbors<V: AsVertex<u64> + 'static>(&self, contexts: ContextIterator<'static, V>, type_name: &Arc<str>, edge_name: &Arc<str>, parameters: &EdgeParameters, resolve_info: &ResolveEdgeInfo) -> ContextOutcomeIterator<'static, V, VertexIterator<'static, u64>> {
        dump_all(&self.q, &resolve_info.destination(), 3, &format!("E{}", eid_n(resolve_info.eid())));
        self.inner.resolve_neighbors(contexts, type_name, edge_name, parameters, resolve_info)
    }
    fn resolve_coercion<V: AsVertex<u64> + 'static>(&self, contexts: ContextIterator<'static, V>, type_name: &Arc<str>, coerce_to_type: &Arc<str>, resolve_info: &ResolveInfo) -> ContextOutcomeIterator<'static, V, bool> {
        self.inner.resolve_coercion(contexts, type_name, coerce_to_type, resolve_info)
    }
}

impl InterpretedQueryProbe {
    fn dump(&self, c: &EngineCase) {
        let ad = Arc::new(DumpAdapter { inner: GraphAdapter::new(c.dataset.clone()), q: self.q.clone() });
        let _ = run_with(ad, c.indexed.clone(), c.args.clone());
    }
}
