//! C20: schema introspection reports exactly the schema's contents.
//! C25: the adapter invariant checker catches every contract violation it documents.
//!
//! usage: tfh_intro c20 --seed S --n N --out DIR [--oracle-only]
//!        tfh_intro c25 --seed S --n N --out DIR [--oracle-only]
//!        tfh_intro probe FILE...      (prints the Gallina AST and the rows of the canonical meta-queries)
//!
//! Schema stream (both subcommands): a fixed corpus (the harness world schema, the meta-schema itself,
//! /repo/trustfall_core/test_data/schemas/*.graphql, hand-written witnesses: root type implementing an
//! interface, required / defaulted / nullable parameters, defaults of every JSON shape) and `n` random VALID
//! schemas (generator copied from tfh_c19.rs; a fifth of them additionally get a root type that implements
//! an interface).  Every schema must be accepted by the real Schema::parse.
//!
//! c20: the canonical meta-queries are compiled by the real frontend against the real meta-schema
//! (SchemaAdapter::schema_text()) and executed by the real interpreter over the real SchemaAdapter; the rows
//! are rendered, sorted (F14: VertexType order is HashMap order) and compared
//!   (tie)    with the Introspect.v model run on the AST the real parser produced,
//!   (oracle) with the model's AST-level specification `spec_*` (kind "oracle"), and
//!   (direct) with a plain Rust recomputation from the parsed ServiceDocument (independent of Coq).
//! Hinted enumerations (`name` filtered with `=` / `one_of`) are compared with the filtered full enumeration.
//! check_adapter_invariants(meta-schema, SchemaAdapter(schema)) must pass.
//!
//! c25: for each schema and a contract-abiding adapter (GraphAdapter over a random dataset for the world
//! schema, an adapter with no data for the others) every single fault (12 kinds) x every resolver target
//! (every (type, property) + __typename, every (type, edge), every (interface, implementer) coercion, the
//! root query type included when it implements an interface) is injected and the REAL
//! check_adapter_invariants is run under catch_unwind.  Tie: Checker.v's `check` predicts pass/fail.
//! Oracle: the honest adapter passes; every fault is detected (an undetected one is a failure, classified
//! when the target lies in one of the two uncovered classes proved in CheckerProofs.v).
#[path = "../coq.rs"]
mod coq;
#[path = "../out.rs"]
mod out;
#[path = "../rng.rs"]
mod rng;
#[path = "../show.rs"]
mod show;
#[path = "../world.rs"]
mod world;

use async_graphql_parser::parse_schema;
use async_graphql_parser::types::{
    BaseType, FieldDefinition, ServiceDocument, Type as GType, TypeKind, TypeSystemDefinition,
};
use coq::{cbool, cfv, clist, cstr};
use out::{Case, Out};
use rng::Rng;
use serde_json::json;
use show::{hex, show_fv};
use std::collections::{BTreeMap, BTreeSet};
use std::panic::{catch_unwind, AssertUnwindSafe};
use std::path::PathBuf;
use std::sync::{Arc, Mutex};
use trustfall_core::frontend::parse;
use trustfall_core::interpreter::execution::interpret_ir;
use trustfall_core::interpreter::helpers::check_adapter_invariants;
use trustfall_core::interpreter::{
    Adapter, AsVertex, ContextIterator, ContextOutcomeIterator, DataContext, ResolveEdgeInfo, ResolveInfo,
    VertexIterator,
};
use trustfall_core::ir::{EdgeParameters, FieldValue};
use trustfall_core::schema::{Schema, SchemaAdapter};

// ------------------------------------------------------------------ CLI

pub struct Args {
    pub seed: u64,
    pub n: usize,
    pub out: PathBuf,
    pub rest: Vec<String>,
}

fn parse_args(v: &[String]) -> Args {
    let mut a = Args { seed: 0, n: 100, out: PathBuf::from("."), rest: vec![] };
    let mut i = 0;
    while i < v.len() {
        match v[i].as_str() {
            "--seed" => {
                a.seed = v[i + 1].parse().unwrap();
                i += 2;
            }
            "--n" => {
                a.n = v[i + 1].parse().unwrap();
                i += 2;
            }
            "--out" => {
                a.out = PathBuf::from(&v[i + 1]);
                i += 2;
            }
            _ => {
                a.rest.push(v[i].clone());
                i += 1;
            }
        }
    }
    a
}

// ------------------------------------------------------------------ AST -> Gallina

fn cgty(t: &GType) -> String {
    match &t.base {
        BaseType::Named(n) => format!("(GNamed {} {})", cstr(n.as_str()), cbool(t.nullable)),
        BaseType::List(inner) => format!("(GList {} {})", cgty(inner), cbool(t.nullable)),
    }
}

fn gdepth(t: &GType) -> usize {
    match &t.base {
        BaseType::Named(_) => 0,
        BaseType::List(inner) => 1 + gdepth(inner),
    }
}

fn cfield(f: &FieldDefinition) -> String {
    let args: Vec<String> = f
        .arguments
        .iter()
        .map(|a| {
            let d = match &a.node.default_value {
                None => "NoDefault".to_string(),
                Some(v) => match FieldValue::try_from(v.node.clone()) {
                    Ok(fv) => format!("(Default {})", cfv(&fv)),
                    Err(_) => "BadDefault".to_string(),
                },
            };
            format!("(mkArg {} {} {})", cstr(a.node.name.node.as_str()), cgty(&a.node.ty.node), d)
        })
        .collect();
    format!("(mkFld {} {} {})", cstr(f.name.node.as_str()), clist(&args), cgty(&f.ty.node))
}

/// None when the document uses a construct outside the modelled fragment (extend, enum, union, input).
fn cdoc(doc: &ServiceDocument) -> Option<String> {
    let mut defs = vec![];
    for d in &doc.definitions {
        match d {
            TypeSystemDefinition::Schema(s) => {
                if s.node.extend {
                    return None;
                }
                let q = match &s.node.query {
                    Some(q) => format!("(Some {})", cstr(q.node.as_str())),
                    None => "None".to_string(),
                };
                defs.push(format!("DSchema {q}"));
            }
            TypeSystemDefinition::Directive(d) => defs.push(format!("DDirective {}", cstr(d.node.name.node.as_str()))),
            TypeSystemDefinition::Type(t) => {
                if t.node.extend {
                    return None;
                }
                let name = cstr(t.node.name.node.as_str());
                match &t.node.kind {
                    TypeKind::Scalar => defs.push(format!("DScalar {name}")),
                    TypeKind::Object(o) => {
                        let imp: Vec<String> = o.implements.iter().map(|x| cstr(x.node.as_str())).collect();
                        let fs: Vec<String> = o.fields.iter().map(|f| cfield(&f.node)).collect();
                        defs.push(format!("DType (mkT {name} VObject {} {})", clist(&imp), clist(&fs)));
                    }
                    TypeKind::Interface(o) => {
                        let imp: Vec<String> = o.implements.iter().map(|x| cstr(x.node.as_str())).collect();
                        let fs: Vec<String> = o.fields.iter().map(|f| cfield(&f.node)).collect();
                        defs.push(format!("DType (mkT {name} VInterface {} {})", clist(&imp), clist(&fs)));
                    }
                    _ => return None,
                }
            }
        }
    }
    Some(clist(&defs))
}
// ------------------------------------------------------------------ generator: schema documents

#[derive(Clone, Debug)]
struct GArg {
    name: String,
    ty: String,
    default: Option<String>,
}
#[derive(Clone, Debug)]
struct GField {
    name: String,
    args: Vec<GArg>,
    ty: String,
}
#[derive(Clone, Debug)]
struct GTy {
    name: String,
    iface: bool,
    implements: Vec<String>,
    fields: Vec<GField>,
}
#[derive(Clone, Debug)]
enum GDef {
    Schema(String),
    Directive(String), // full text of the directive definition
    Scalar(String),
    Type(GTy),
}
#[derive(Clone, Debug)]
struct GDoc {
    defs: Vec<GDef>,
    root: String,
}

impl GDoc {
    fn text(&self) -> String {
        let mut s = String::new();
        for d in &self.defs {
            match d {
                GDef::Schema(q) => s.push_str(&format!("schema {{\n  query: {q}\n}}\n")),
                GDef::Directive(t) => {
                    s.push_str(t);
                    s.push('\n');
                }
                GDef::Scalar(n) => s.push_str(&format!("scalar {n}\n")),
                GDef::Type(t) => s.push_str(&type_text(t)),
            }
        }
        s
    }
    fn types(&self) -> Vec<&GTy> {
        self.defs.iter().filter_map(|d| if let GDef::Type(t) = d { Some(t) } else { None }).collect()
    }
    fn ty(&self, n: &str) -> Option<&GTy> {
        self.types().into_iter().find(|t| t.name == n)
    }
    fn ty_mut(&mut self, n: &str) -> Option<&mut GTy> {
        self.defs.iter_mut().find_map(|d| match d {
            GDef::Type(t) if t.name == n => Some(t),
            _ => None,
        })
    }
    /// names of the types that list `n` in their implements
    fn implementers(&self, n: &str) -> Vec<String> {
        self.types().into_iter().filter(|t| t.implements.iter().any(|x| x == n)).map(|t| t.name.clone()).collect()
    }
    /// non-root types nobody implements
    fn leaves(&self) -> Vec<String> {
        self.types().into_iter().filter(|t| t.name != self.root && self.implementers(&t.name).is_empty()).map(|t| t.name.clone()).collect()
    }
    fn fresh_type_name(&self, rng: &mut Rng, stem: &str) -> String {
        loop {
            let n = format!("{}{}", stem, rng.below(1000));
            if self.ty(&n).is_none() {
                return n;
            }
        }
    }
}

fn args_text(args: &[GArg]) -> String {
    if args.is_empty() {
        return String::new();
    }
    let parts: Vec<String> = args
        .iter()
        .map(|a| match &a.default {
            Some(d) => format!("{}: {} = {}", a.name, a.ty, d),
            None => format!("{}: {}", a.name, a.ty),
        })
        .collect();
    format!("({})", parts.join(", "))
}

fn type_text(t: &GTy) -> String {
    let kw = if t.iface { "interface" } else { "type" };
    let imp = if t.implements.is_empty() { String::new() } else { format!(" implements {}", t.implements.join(" & ")) };
    let mut s = format!("{} {}{}", kw, t.name, imp);
    if t.fields.is_empty() {
        s.push('\n');
        return s;
    }
    s.push_str(" {\n");
    for f in &t.fields {
        s.push_str(&format!("  {}{}: {}\n", f.name, args_text(&f.args), f.ty));
    }
    s.push_str("}\n");
    s
}

// ---- type-text helpers (nullability pattern outermost first, base name)
#[derive(Clone, Debug, PartialEq)]
struct Shape {
    base: String,
    nulls: Vec<bool>, // nulls[0] = outermost level ... nulls[depth] = the named level
}
fn shape_of(text: &str) -> Shape {
    let mut s = text;
    let mut nulls = vec![];
    loop {
        let (nl, core) = match s.strip_suffix('!') {
            Some(c) => (false, c),
            None => (true, s),
        };
        nulls.push(nl);
        match core.strip_prefix('[').and_then(|x| x.strip_suffix(']')) {
            Some(inner) => s = inner,
            None => return Shape { base: core.to_string(), nulls },
        }
    }
}
fn shape_text(sh: &Shape) -> String {
    let d = sh.nulls.len() - 1;
    let mut s = format!("{}{}", sh.base, if sh.nulls[d] { "" } else { "!" });
    for lvl in (0..d).rev() {
        s = format!("[{}]{}", s, if sh.nulls[lvl] { "" } else { "!" });
    }
    s
}

const SCALARS: [&str; 5] = ["Int", "String", "Float", "Boolean", "ID"];
const TYPE_NAMES: [&str; 16] = [
    "Alpha", "Beta", "Gamma", "Delta", "Node", "Item", "Box", "Zed", "a", "b", "Ab", "aB", "_x", "M1", "Omega", "Thing",
];
const ROOT_NAMES: [&str; 5] = ["RootSchemaQuery", "Query", "Root", "A0", "zRoot"];

fn random_scalar_shape(rng: &mut Rng) -> Shape {
    let base = (*rng.pick(&SCALARS)).to_string();
    let depth = match rng.below(10) {
        0..=4 => 0,
        5..=7 => 1,
        8 => 2,
        _ => 3,
    };
    Shape { base, nulls: (0..=depth).map(|_| rng.chance(1, 2)).collect() }
}

/// a literal that is a valid value of the (scalar / list of scalar) type, if one exists
fn valid_literal(rng: &mut Rng, sh: &Shape, lvl: usize) -> Option<String> {
    if sh.nulls[lvl] && rng.chance(1, 4) {
        return Some("null".into());
    }
    if lvl + 1 < sh.nulls.len() {
        let n = rng.below(3);
        let mut items = vec![];
        for _ in 0..n {
            items.push(valid_literal(rng, sh, lvl + 1)?);
        }
        return Some(format!("[{}]", items.join(", ")));
    }
    match sh.base.as_str() {
        "Int" => Some(
            (*rng.pick(&["0", "1", "-7", "1000", "9223372036854775807", "-9223372036854775808", "18446744073709551615"])).to_string(),
        ),
        "String" => Some((*rng.pick(&["\"\"", "\"a\"", "\"x y\"", "\"\\\"q\\\"\"", "\"tab\\there\"", "\"b\\\\s\"", "\"\\u0001\\n\"", "\"caf\u{e9}\""])).to_string()),
        "Float" => Some((*rng.pick(&["1.5", "-0.25", "1e10", "0.0", "1e300", "0.1", "123456.789e-3"])).to_string()),
        "Boolean" => Some((*rng.pick(&["true", "false"])).to_string()),
        _ => {
            if sh.nulls[lvl] {
                Some("null".into())
            } else {
                None
            }
        }
    }
}

/// a literal that is NOT a valid value of the type
fn invalid_literal(rng: &mut Rng, sh: &Shape) -> String {
    let depth = sh.nulls.len() - 1;
    let mut opts: Vec<String> = vec![];
    if !sh.nulls[0] {
        opts.push("null".into());
    }
    if depth == 0 {
        opts.push("[]".into());
        opts.push("{a: 1}".into());
        match sh.base.as_str() {
            "Int" => opts.extend(["\"a\"".to_string(), "1.5".into(), "true".into()]),
            "String" => opts.extend(["1".to_string(), "1.5".into(), "false".into()]),
            "Float" => opts.extend(["1".to_string(), "\"a\"".into()]),
            "Boolean" => opts.extend(["0".to_string(), "\"true\"".into()]),
            _ => opts.extend(["1".to_string(), "\"a\"".into()]),
        }
    } else {
        opts.push("1".into());
        opts.push("\"a\"".into());
        opts.push("[{a: 1}]".into());
        if depth == 1 {
            opts.push("[[]]".into());
            match sh.base.as_str() {
                "Int" => opts.push("[1, \"a\"]".into()),
                "String" => opts.push("[\"a\", 1]".into()),
                _ => opts.push("[1.5, true, \"s\"]".into()),
            }
            if !sh.nulls[1] {
                opts.push("[null]".into());
            }
        }
    }
    rng.pick(&opts).clone()
}

fn random_params(rng: &mut Rng) -> Vec<GArg> {
    let n = match rng.below(6) {
        0..=2 => 0,
        3..=4 => 1,
        _ => 2 + rng.below(2),
    };
    let names = ["lo", "hi", "max", "x", "y", "_p"];
    let mut used = vec![];
    let mut v = vec![];
    for _ in 0..n {
        let name = (*rng.pick(&names)).to_string();
        if used.contains(&name) {
            continue;
        }
        used.push(name.clone());
        let sh = if rng.chance(1, 12) {
            // parameter types are never looked up: any name goes
            Shape { base: (*rng.pick(&["Whatever", "Date"])).to_string(), nulls: vec![true] }
        } else {
            random_scalar_shape(rng)
        };
        let default = if rng.chance(1, 2) { valid_literal(rng, &sh, 0) } else { None };
        v.push(GArg { name, ty: shape_text(&sh), default });
    }
    v
}

struct Hier {
    names: Vec<String>,
    iface: Vec<bool>,
    implements: Vec<Vec<usize>>, // transitively closed, indices < own index
}

impl Hier {
    /// is `sub` the same as, or an implementer of, `sup`
    fn below(&self, sub: usize, sup: usize) -> bool {
        sub == sup || self.implements[sub].contains(&sup)
    }
}

fn narrow_nulls(rng: &mut Rng, parents: &[&Shape]) -> Vec<bool> {
    let n = parents[0].nulls.len();
    (0..n)
        .map(|i| {
            let all_nullable = parents.iter().all(|p| p.nulls[i]);
            if all_nullable { !rng.chance(1, 3) } else { false }
        })
        .collect()
}

/// A random valid schema (None = this draw hit an unsatisfiable narrowing; the caller retries).
fn gen_valid(rng: &mut Rng) -> Option<GDoc> {
    let n = 1 + rng.below(6);
    let mut pool: Vec<&str> = TYPE_NAMES.to_vec();
    let mut names = vec![];
    for _ in 0..n {
        let i = rng.below(pool.len());
        names.push(pool.remove(i).to_string());
    }
    let root = loop {
        let r = (*rng.pick(&ROOT_NAMES)).to_string();
        if !names.contains(&r) {
            break r;
        }
    };
    // hierarchy: type i may implement earlier interfaces (transitively closed)
    let mut h = Hier { names: names.clone(), iface: vec![], implements: vec![] };
    for i in 0..n {
        let is_iface = if i + 1 == n { rng.chance(1, 4) } else { rng.chance(2, 3) };
        let mut imp: BTreeSet<usize> = BTreeSet::new();
        for j in 0..i {
            if h.iface[j] && rng.chance(1, 2) {
                imp.insert(j);
                for k in &h.implements[j] {
                    imp.insert(*k);
                }
            }
        }
        h.iface.push(is_iface);
        let mut v: Vec<usize> = imp.into_iter().collect();
        // the order in which interfaces are listed is irrelevant for validity: shuffle
        for a in (1..v.len()).rev() {
            let b = rng.below(a + 1);
            v.swap(a, b);
        }
        h.implements.push(v);
    }
    // fields, in hierarchy order
    let mut fields: Vec<Vec<GField>> = vec![];
    let mut counter = 0usize;
    for i in 0..n {
        let mut fs: Vec<GField> = vec![];
        // inherited field names, in first-seen order
        let mut inherited: Vec<String> = vec![];
        for &p in &h.implements[i] {
            for f in &fields[p] {
                if !inherited.contains(&f.name) {
                    inherited.push(f.name.clone());
                }
            }
        }
        for fname in inherited {
            let versions: Vec<&GField> =
                h.implements[i].iter().filter_map(|&p| fields[p].iter().find(|f| f.name == fname)).collect();
            let shapes: Vec<Shape> = versions.iter().map(|f| shape_of(&f.ty)).collect();
            let shape_refs: Vec<&Shape> = shapes.iter().collect();
            let nulls = narrow_nulls(rng, &shape_refs);
            let bases: Vec<&String> = shapes.iter().map(|s| &s.base).collect();
            let base = if SCALARS.contains(&bases[0].as_str()) {
                bases[0].clone()
            } else {
                // a vertex type below every parent's target
                let idx: Vec<usize> = bases.iter().map(|b| h.names.iter().position(|x| x == *b).unwrap()).collect();
                let cands: Vec<usize> = (0..n).filter(|&y| idx.iter().all(|&b| h.below(y, b))).collect();
                if cands.is_empty() {
                    return None;
                }
                // prefer keeping a parent's target when possible
                let keep: Vec<usize> = cands.iter().copied().filter(|y| idx.contains(y)).collect();
                if !keep.is_empty() && rng.chance(1, 2) {
                    h.names[*rng.pick(&keep)].clone()
                } else {
                    h.names[*rng.pick(&cands)].clone()
                }
            };
            // parameters: the same names; a level may be nullable only... it MUST be nullable where any parent is
            let mut args = vec![];
            for pa in &versions[0].args {
                let pshapes: Vec<Shape> =
                    versions.iter().map(|v| shape_of(&v.args.iter().find(|a| a.name == pa.name).unwrap().ty)).collect();
                let nn: Vec<bool> = (0..pshapes[0].nulls.len())
                    .map(|l| if pshapes.iter().any(|s| s.nulls[l]) { true } else { rng.chance(1, 3) })
                    .collect();
                let sh = Shape { base: pshapes[0].base.clone(), nulls: nn };
                let default = if rng.chance(1, 2) { valid_literal(rng, &sh, 0) } else { None };
                args.push(GArg { name: pa.name.clone(), ty: shape_text(&sh), default });
            }
            // the order of parameters is irrelevant
            if args.len() > 1 && rng.chance(1, 2) {
                args.reverse();
            }
            fs.push(GField { name: fname, args, ty: shape_text(&Shape { base, nulls }) });
        }
        // own fields
        let nprops = rng.below(4);
        let nedges = rng.below(3);
        for _ in 0..nprops {
            counter += 1;
            let sh = if rng.chance(1, 40) {
                Shape { base: "Int".into(), nulls: (0..=30).map(|_| rng.chance(1, 2)).collect() }
            } else {
                random_scalar_shape(rng)
            };
            fs.push(GField { name: format!("p{counter}"), args: vec![], ty: shape_text(&sh) });
        }
        for _ in 0..nedges {
            counter += 1;
            let target = h.names[rng.below(n)].clone();
            let nulls = if rng.chance(1, 2) { vec![rng.chance(1, 2)] } else { vec![rng.chance(1, 2), rng.chance(1, 2)] };
            fs.push(GField { name: format!("e{counter}"), args: random_params(rng), ty: shape_text(&Shape { base: target, nulls }) });
        }
        if fs.is_empty() {
            counter += 1;
            fs.push(GField { name: format!("p{counter}"), args: vec![], ty: "Int".into() });
        }
        // field order is irrelevant
        for a in (1..fs.len()).rev() {
            let b = rng.below(a + 1);
            fs.swap(a, b);
        }
        fields.push(fs);
    }
    // root: entry points
    let nentry = 1 + rng.below(4);
    let mut rfields = vec![];
    for k in 0..nentry {
        let target = h.names[rng.below(n)].clone();
        let nulls = if rng.chance(1, 3) { vec![rng.chance(1, 2)] } else { vec![rng.chance(1, 2), rng.chance(1, 2)] };
        let name = if rng.chance(1, 2) { format!("{}{}", target, k) } else { format!("entry{k}") };
        rfields.push(GField { name, args: random_params(rng), ty: shape_text(&Shape { base: target, nulls }) });
    }
    let mut defs: Vec<GDef> = vec![];
    for i in 0..n {
        defs.push(GDef::Type(GTy {
            name: h.names[i].clone(),
            iface: h.iface[i],
            implements: h.implements[i].iter().map(|&j| h.names[j].clone()).collect(),
            fields: fields[i].clone(),
        }));
    }
    defs.push(GDef::Type(GTy { name: root.clone(), iface: false, implements: vec![], fields: rfields }));
    if rng.chance(2, 3) {
        for line in Schema::ALL_DIRECTIVE_DEFINITIONS.lines().filter(|l| !l.trim().is_empty()) {
            defs.push(GDef::Directive(line.to_string()));
        }
    } else if rng.chance(1, 2) {
        defs.push(GDef::Directive("directive @custom(x: Int = 3) on FIELD".into()));
    }
    for sc in ["Date", "Url"] {
        if rng.chance(1, 5) {
            defs.push(GDef::Scalar(sc.to_string()));
        }
    }
    // a scalar may share its name with a vertex type: they live in different maps
    if rng.chance(1, 25) {
        defs.push(GDef::Scalar(h.names[0].clone()));
    }
    defs.push(GDef::Schema(root.clone()));
    // document order is irrelevant for validity
    for a in (1..defs.len()).rev() {
        let b = rng.below(a + 1);
        defs.swap(a, b);
    }
    Some(GDoc { defs, root })
}

fn gen_valid_retry(rng: &mut Rng) -> GDoc {
    loop {
        if let Some(d) = gen_valid(rng) {
            return d;
        }
    }
}

// ------------------------------------------------------------------ schema stream

#[derive(Clone, Debug)]
struct Sch {
    origin: &'static str,
    label: String,
    text: String,
}

const W_ROOT_IFACE: &str = r#"schema { query: Root }
interface Named { self: [Named!] }
type Thing implements Named {
  self: [Named!]
  label: String
  other(lo: Int!, hi: Int = 5): Thing
  near(x: String = "a\tb\"c\\d\u0001e", y: [Float!] = [1.5, -0.25, 1e300], z: Boolean): [Thing!]!
}
type Root implements Named {
  self: [Named!]
  things(first: Int = 10): [Thing!]!
  one(id: Int!): Thing
}
"#;

const W_PARAMS: &str = r#"schema { query: Q }
type Q {
  a(id: Int!): [A!]!
  b: B
  c(x: Int = 3, s: String): [A]
}
type A {
  id: Int!
  name: String
  req(n: Int!): [A!]
  opt(n: Int): A!
  dfl(n: Int! = 7, m: [String]! = ["x", null], f: Float = 2.5, u: Int = 18446744073709551615, b: Boolean! = false, neg: Int = -9223372036854775808): [B!]!
  mixed(p: Int!, q: Int = 1): B
  lst(p: [[Int]!]!): [B]
}
type B {
  v: [[Int!]]!
  back: A
}
"#;

const W_DIAMOND: &str = r#"schema { query: Q }
interface I { x: Int  e: [I] }
interface J implements I { x: Int!  e: [J]  y: String }
interface K implements I { x: Int  e: [I!] }
type T implements J & K & I { x: Int!  e: [T!]  y: String  z: Float }
type U implements I { x: Int  e: [U] }
type Lonely { w: ID }
type Q { t: [T]  i: I!  l: Lonely }
"#;

fn corpus() -> Vec<Sch> {
    let mut v = vec![
        Sch { origin: "world", label: "harness world schema".into(), text: world::schema_text() },
        Sch { origin: "meta", label: "the meta-schema itself".into(), text: SchemaAdapter::schema_text().to_string() },
        Sch { origin: "witness", label: "root query type implements an interface".into(), text: W_ROOT_IFACE.into() },
        Sch { origin: "witness", label: "required / nullable / defaulted parameters".into(), text: W_PARAMS.into() },
        Sch { origin: "witness", label: "interface diamond".into(), text: W_DIAMOND.into() },
    ];
    let base = PathBuf::from("/repo/trustfall_core/test_data/schemas");
    let mut files: Vec<PathBuf> = match std::fs::read_dir(&base) {
        Ok(rd) => rd.filter_map(|e| e.ok()).map(|e| e.path()).filter(|p| p.extension().map(|x| x == "graphql").unwrap_or(false)).collect(),
        Err(_) => vec![],
    };
    files.sort();
    for f in files {
        if let Ok(text) = std::fs::read_to_string(&f) {
            v.push(Sch { origin: "repo", label: format!("test_data/schemas/{}", f.file_name().unwrap().to_string_lossy()), text });
        }
    }
    v
}

/// Make the root query type implement a (new) edge-only interface that some vertex type points to, so that
/// the root type is reachable as a vertex (through a coercion).
fn add_root_iface(rng: &mut Rng, d: &mut GDoc) {
    let root = d.root.clone();
    let others: Vec<String> = d.types().iter().filter(|t| t.name != root).map(|t| t.name.clone()).collect();
    if others.is_empty() || d.ty("RootLike").is_some() {
        return;
    }
    let target = rng.pick(&others).clone();
    let holder = rng.pick(&others).clone();
    let f = GField { name: "rl_peer".into(), args: if rng.chance(1, 2) { random_params(rng) } else { vec![] }, ty: format!("[{}]", target) };
    d.defs.push(GDef::Type(GTy { name: "RootLike".into(), iface: true, implements: vec![], fields: vec![f.clone()] }));
    if let Some(r) = d.ty_mut(&root) {
        r.implements.push("RootLike".into());
        r.fields.push(f);
    }
    if let Some(h) = d.ty_mut(&holder) {
        h.fields.push(GField { name: "to_rootlike".into(), args: vec![], ty: "RootLike".into() });
    }
    // every implementer of `holder` must repeat the new field
    let subs = d.implementers(&holder);
    for s in subs {
        if let Some(t) = d.ty_mut(&s) {
            t.fields.push(GField { name: "to_rootlike".into(), args: vec![], ty: "RootLike".into() });
        }
    }
}

fn schema_stream(seed: u64, n: usize) -> Vec<Sch> {
    let mut v = corpus();
    let mut rng = Rng::new(seed ^ 0xC20);
    for k in 0..n {
        let mut r = rng.fork();
        let mut d = gen_valid_retry(&mut r);
        let mut label = "random valid schema".to_string();
        if k % 5 == 4 {
            add_root_iface(&mut r, &mut d);
            label.push_str(" + root implements an interface");
        }
        v.push(Sch { origin: "random", label, text: d.text() });
    }
    v
}

// ------------------------------------------------------------------ facts read directly from the parsed document

struct TInfo<'d> {
    name: String,
    iface: bool,
    implements: Vec<String>,
    fields: Vec<&'d FieldDefinition>,
}
struct Facts<'d> {
    root: String,
    types: Vec<TInfo<'d>>,
}

fn facts(doc: &ServiceDocument) -> Option<Facts<'_>> {
    let mut root = None;
    let mut types = vec![];
    for d in &doc.definitions {
        match d {
            TypeSystemDefinition::Schema(s) => root = s.node.query.as_ref().map(|q| q.node.to_string()),
            TypeSystemDefinition::Type(t) => match &t.node.kind {
                TypeKind::Object(o) => types.push(TInfo {
                    name: t.node.name.node.to_string(),
                    iface: false,
                    implements: o.implements.iter().map(|x| x.node.to_string()).collect(),
                    fields: o.fields.iter().map(|f| &f.node).collect(),
                }),
                TypeKind::Interface(o) => types.push(TInfo {
                    name: t.node.name.node.to_string(),
                    iface: true,
                    implements: o.implements.iter().map(|x| x.node.to_string()).collect(),
                    fields: o.fields.iter().map(|f| &f.node).collect(),
                }),
                _ => {}
            },
            _ => {}
        }
    }
    Some(Facts { root: root?, types })
}

fn gbase(t: &GType) -> String {
    match &t.base {
        BaseType::Named(n) => n.to_string(),
        BaseType::List(inner) => gbase(inner),
    }
}

impl<'d> Facts<'d> {
    fn is_vertex(&self, n: &str) -> bool {
        self.types.iter().any(|t| t.name == n)
    }
    fn visible(&self) -> Vec<&TInfo<'d>> {
        self.types.iter().filter(|t| t.name != self.root).collect()
    }
    fn root_type(&self) -> Option<&TInfo<'d>> {
        self.types.iter().find(|t| t.name == self.root)
    }
    fn is_edge(&self, f: &FieldDefinition) -> bool {
        self.is_vertex(&gbase(&f.ty.node))
    }
}

// ------------------------------------------------------------------ rendering (mirrors show_row / show_rows of Introspect.v)

fn rs(s: &str) -> String {
    format!("s{}", hex(s))
}
fn rb(b: bool) -> String {
    if b { "T".into() } else { "F".into() }
}

/// Replace every float token of a JSON text (a number containing '.', 'e' or 'E', outside strings) by
/// `f<bits>`; everything else is kept verbatim.  (The model abstracts ryu's decimal rendering, see
/// `float_text` in Introspect.v.)
fn norm_json_floats(text: &str) -> String {
    let b = text.as_bytes();
    let mut out: Vec<u8> = Vec::with_capacity(b.len());
    let mut i = 0;
    while i < b.len() {
        let c = b[i];
        if c == b'"' {
            out.push(c);
            i += 1;
            while i < b.len() {
                out.push(b[i]);
                if b[i] == b'\\' && i + 1 < b.len() {
                    out.push(b[i + 1]);
                    i += 2;
                    continue;
                }
                if b[i] == b'"' {
                    i += 1;
                    break;
                }
                i += 1;
            }
        } else if c == b'-' || c.is_ascii_digit() {
            let start = i;
            while i < b.len() && (b[i] == b'-' || b[i] == b'+' || b[i] == b'.' || b[i] == b'e' || b[i] == b'E' || b[i].is_ascii_digit()) {
                i += 1;
            }
            let tok = &text[start..i];
            if tok.contains('.') || tok.contains('e') || tok.contains('E') {
                match tok.parse::<f64>() {
                    Ok(f) => out.extend_from_slice(format!("f{}", f.to_bits()).as_bytes()),
                    Err(_) => out.extend_from_slice(tok.as_bytes()),
                }
            } else {
                out.extend_from_slice(tok.as_bytes());
            }
        } else {
            out.push(c);
            i += 1;
        }
    }
    String::from_utf8(out).unwrap_or_else(|_| text.to_string())
}

fn show_cell(v: &FieldValue, json_col: bool) -> String {
    match v {
        FieldValue::String(s) if json_col => rs(&norm_json_floats(s)),
        other => show_fv(other),
    }
}

type Row = BTreeMap<Arc<str>, FieldValue>;

fn render_rows(rows: &[Row], cols: &[&str], json_col: Option<&str>) -> Vec<String> {
    let mut v: Vec<String> = rows
        .iter()
        .map(|r| {
            cols.iter()
                .map(|c| match r.get(*c) {
                    Some(x) => show_cell(x, json_col == Some(*c)),
                    None => "?".to_string(),
                })
                .collect::<Vec<_>>()
                .join(",")
        })
        .collect();
    v.sort();
    v
}

fn joined(v: &[String]) -> String {
    v.join("|")
}

// ------------------------------------------------------------------ running meta-queries on the real SchemaAdapter

fn run_meta<'a>(meta: &Schema, adapter: Arc<SchemaAdapter<'a>>, query: &str, args: BTreeMap<Arc<str>, FieldValue>) -> Result<Vec<Row>, String> {
    let r = catch_unwind(AssertUnwindSafe(|| {
        let indexed = parse(meta, query).map_err(|e| format!("frontend: {e}"))?;
        let it = interpret_ir(adapter, indexed, Arc::new(args)).map_err(|e| format!("arguments: {e}"))?;
        Ok::<Vec<Row>, String>(it.collect())
    }));
    match r {
        Ok(x) => x,
        Err(_) => Err("PANIC".into()),
    }
}

struct MetaQ {
    name: &'static str,
    text: &'static str,
    cols: &'static [&'static str],
    json_col: Option<&'static str>,
    model: &'static str,
    spec: Option<&'static str>,
}

const EDGE_BODY: &str = "ename: name @output to_many @output at_least_one @output target { tname: name @output }";
const PARAM_BODY: &str = "ename: name @output parameter { pname: name @output ptype: type @output pdefault: default @output }";

fn meta_queries() -> Vec<(MetaQ, String)> {
    let qs = vec![
        (MetaQ { name: "types", text: "", cols: &["name", "is_interface"], json_col: None, model: "q_types", spec: Some("spec_types") },
         "{ VertexType { name @output is_interface @output } }".to_string()),
        (MetaQ { name: "implements", text: "", cols: &["name", "iname"], json_col: None, model: "q_implements", spec: Some("spec_implements") },
         "{ VertexType { name @output implements { iname: name @output } } }".to_string()),
        (MetaQ { name: "implementer", text: "", cols: &["name", "iname"], json_col: None, model: "q_implementer", spec: Some("spec_implementer_documented") },
         "{ VertexType { name @output implementer { iname: name @output } } }".to_string()),
        (MetaQ { name: "properties", text: "", cols: &["name", "pname", "ptype"], json_col: None, model: "q_properties", spec: Some("spec_properties") },
         "{ VertexType { name @output property { pname: name @output ptype: type @output } } }".to_string()),
        (MetaQ { name: "edges", text: "", cols: &["name", "ename", "to_many", "at_least_one", "tname"], json_col: None, model: "q_edges", spec: Some("spec_edges") },
         format!("{{ VertexType {{ name @output edge {{ {EDGE_BODY} }} }} }}")),
        (MetaQ { name: "params", text: "", cols: &["name", "ename", "pname", "ptype", "pdefault"], json_col: Some("pdefault"), model: "q_params", spec: Some("spec_params") },
         format!("{{ VertexType {{ name @output edge {{ {PARAM_BODY} }} }} }}")),
        (MetaQ { name: "entrypoints", text: "", cols: &["ename", "to_many", "at_least_one", "tname"], json_col: None, model: "q_entrypoints", spec: Some("spec_entrypoints") },
         format!("{{ Entrypoint {{ {EDGE_BODY} }} }}")),
        (MetaQ { name: "entry_params", text: "", cols: &["ename", "pname", "ptype", "pdefault"], json_col: Some("pdefault"), model: "q_entry_params", spec: Some("spec_entry_params") },
         format!("{{ Entrypoint {{ {PARAM_BODY} }} }}")),
        (MetaQ { name: "schema_types", text: "", cols: &["name", "is_interface"], json_col: None, model: "q_schema_types", spec: Some("spec_types") },
         "{ Schema { vertex_type { name @output is_interface @output } } }".to_string()),
        (MetaQ { name: "schema_entrypoints", text: "", cols: &["ename", "to_many", "at_least_one", "tname"], json_col: None, model: "q_schema_entrypoints", spec: Some("spec_entrypoints") },
         format!("{{ Schema {{ entrypoint {{ {EDGE_BODY} }} }} }}")),
    ];
    qs
}

// ------------------------------------------------------------------ direct recomputation of the expected rows

fn default_text(a: &async_graphql_parser::types::InputValueDefinition) -> String {
    match &a.default_value {
        Some(v) => match v.node.clone().into_json() {
            Ok(j) => rs(&norm_json_floats(&serde_json::to_string(&j).unwrap())),
            Err(_) => "?".into(),
        },
        None => {
            if a.ty.node.nullable {
                rs("null")
            } else {
                "n".into()
            }
        }
    }
}

fn edge_cells(fx: &Facts, f: &FieldDefinition) -> Vec<String> {
    let _ = fx;
    vec![
        rs(f.name.node.as_str()),
        rb(matches!(f.ty.node.base, BaseType::List(_))),
        rb(!f.ty.node.nullable),
        rs(&gbase(&f.ty.node)),
    ]
}

fn param_rows(f: &FieldDefinition) -> Vec<Vec<String>> {
    f.arguments
        .iter()
        .map(|a| vec![rs(f.name.node.as_str()), rs(a.node.name.node.as_str()), rs(&a.node.ty.node.to_string()), default_text(&a.node)])
        .collect()
}

/// The documented contents of each relation, recomputed from the parsed document.
fn direct_expected(fx: &Facts, q: &str) -> Vec<String> {
    let mut rows: Vec<Vec<String>> = vec![];
    match q {
        "types" | "schema_types" => {
            for t in fx.visible() {
                rows.push(vec![rs(&t.name), rb(t.iface)]);
            }
        }
        "implements" => {
            for t in fx.visible() {
                for i in &t.implements {
                    rows.push(vec![rs(&t.name), rs(i)]);
                }
            }
        }
        "implementer" => {
            // documented: subtypes; empty unless the type is an interface
            for t in fx.visible() {
                if t.iface {
                    for u in &fx.types {
                        if u.implements.contains(&t.name) {
                            rows.push(vec![rs(&t.name), rs(&u.name)]);
                        }
                    }
                }
            }
        }
        "properties" => {
            for t in fx.visible() {
                for f in &t.fields {
                    if !fx.is_edge(f) {
                        rows.push(vec![rs(&t.name), rs(f.name.node.as_str()), rs(&f.ty.node.to_string())]);
                    }
                }
            }
        }
        "edges" => {
            for t in fx.visible() {
                for f in &t.fields {
                    if fx.is_edge(f) {
                        let mut r = vec![rs(&t.name)];
                        r.extend(edge_cells(fx, f));
                        rows.push(r);
                    }
                }
            }
        }
        "params" => {
            for t in fx.visible() {
                for f in &t.fields {
                    if fx.is_edge(f) {
                        for pr in param_rows(f) {
                            let mut r = vec![rs(&t.name)];
                            r.extend(pr);
                            rows.push(r);
                        }
                    }
                }
            }
        }
        "entrypoints" | "schema_entrypoints" => {
            if let Some(r) = fx.root_type() {
                for f in &r.fields {
                    rows.push(edge_cells(fx, f));
                }
            }
        }
        "entry_params" => {
            if let Some(r) = fx.root_type() {
                for f in &r.fields {
                    rows.extend(param_rows(f));
                }
            }
        }
        _ => {}
    }
    let mut v: Vec<String> = rows.into_iter().map(|r| r.join(",")).collect();
    v.sort();
    v
}

// ------------------------------------------------------------------ c20

struct Prepared {
    sch: Sch,
    doc: ServiceDocument,
    schema: Schema,
    ast: String,
}

/// Parse every schema of the stream with the real parser and the real Schema::new; drop (and report) the rest.
fn prepare(stream: Vec<Sch>, rejected: &mut Vec<serde_json::Value>) -> Vec<Prepared> {
    let mut v = vec![];
    for sch in stream {
        let doc = match parse_schema(&sch.text) {
            Ok(d) => d,
            Err(e) => {
                rejected.push(json!({"label": sch.label, "origin": sch.origin, "why": format!("parse error: {e}"), "schema": sch.text}));
                continue;
            }
        };
        let Some(ast) = cdoc(&doc) else {
            continue; // constructs outside the modelled fragment (enum, union, ...)
        };
        let schema = match catch_unwind(AssertUnwindSafe(|| Schema::parse(&sch.text))) {
            Ok(Ok(s)) => s,
            Ok(Err(e)) => {
                rejected.push(json!({"label": sch.label, "origin": sch.origin, "why": format!("rejected: {e}"), "schema": sch.text}));
                continue;
            }
            Err(_) => {
                rejected.push(json!({"label": sch.label, "origin": sch.origin, "why": "Schema::parse panicked", "schema": sch.text}));
                continue;
            }
        };
        v.push(Prepared { sch, doc, schema, ast });
    }
    v
}

fn preamble(imports: &str, ps: &[Prepared]) -> String {
    let mut s = String::from(imports);
    s.push('\n');
    s.push_str("Local Open Scope string_scope.\n");
    for (k, p) in ps.iter().enumerate() {
        s.push_str(&format!("Definition d{k} : doc := {}.\nDefinition s{k} : schema := schema_of_doc d{k}.\n", p.ast));
    }
    s
}

fn cstrs(xs: &[String]) -> String {
    clist(&xs.iter().map(|x| cstr(x)).collect::<Vec<_>>())
}

/// The hint SchemaAdapter receives for a static filter on `name` (String!), per interpreter/hints:
/// `=` gives Single; `one_of` gives Multiple, normalised to Impossible (empty) / Single (one element).
fn hint_of_one_of(l: &[String]) -> String {
    match l.len() {
        0 => "HOther".to_string(),
        1 => format!("(HSingleStr {})", cstr(&l[0])),
        _ => format!("(HMultiple {})", clist(&l.iter().map(|x| format!("(Str {})", cstr(x))).collect::<Vec<_>>())),
    }
}

fn c20_schema(out: &mut Out, k: usize, p: &Prepared, meta: &Schema, oracle_only: bool) {
    let fx = match facts(&p.doc) {
        Some(f) => f,
        None => return,
    };
    let input = |q: &str| json!({"origin": p.sch.origin, "what": p.sch.label, "query": q, "schema": p.sch.text});
    let adapter = Arc::new(SchemaAdapter::new(&p.schema));
    let nvisible = fx.visible().len();
    let has_rel = fx.types.iter().any(|t| !t.implements.is_empty())
        || fx.types.iter().any(|t| t.fields.iter().any(|f| !f.arguments.is_empty()));
    let nontrivial = nvisible >= 2 && has_rel;
    out.count(&format!("origin:{}", p.sch.origin));
    out.count(&format!("visible_types:{}", nvisible.min(7)));
    let mut full_types: Vec<String> = vec![];
    for (q, text) in meta_queries() {
        let rows = match run_meta(meta, adapter.clone(), &text, BTreeMap::new()) {
            Ok(r) => r,
            Err(e) => {
                out.oracle_fail("meta-query failed on the real SchemaAdapter", input(q.name), json!({"error": e, "query": text}));
                if !oracle_only {
                    out.add(Case { input: input(q.name), coq: format!("show_rows ({} s{k})", q.model), imp: "PANIC".into(), nontrivial, key: format!("{}#{}", q.name, p.sch.text) });
                }
                continue;
            }
        };
        out.count_n(&format!("rows:{}", q.name), rows.len() as u64);
        let real = render_rows(&rows, q.cols, q.json_col);
        if q.name == "types" {
            full_types = real.clone();
        }
        // ---- direct oracle: the documented relation, recomputed from the parsed document
        let want = direct_expected(&fx, q.name);
        if real != want {
            if q.name == "implementer" {
                // F18 (repaired by /repo 00e79dd): a type listed as its own implementer, or any implementer of a
                // non-interface type, is a plain violation of the documented relation
                let selfrows: BTreeSet<String> = fx.visible().iter().map(|t| format!("{},{}", rs(&t.name), rs(&t.name))).collect();
                let self_listed: Vec<&String> = real.iter().filter(|r| selfrows.contains(*r)).collect();
                out.oracle_fail(
                    "implementer rows differ from the documented subtypes",
                    input(q.name),
                    json!({"real": real, "documented": want, "self_rows": self_listed, "doc": "Subtypes of this vertex type. If this is not an interface type, this edge is guaranteed to be empty."}),
                );
            } else {
                out.oracle_fail("introspection rows differ from the schema's contents", input(q.name), json!({"real": real, "expected": want}));
            }
        }
        if !oracle_only {
            let key = format!("{}#{}", q.name, p.sch.text);
            out.add(Case { input: input(q.name), coq: format!("show_rows ({} s{k})", q.model), imp: joined(&real), nontrivial: nontrivial && !real.is_empty(), key: key.clone() });
            if let Some(spec) = q.spec {
                out.add_spec(Case { input: input(q.name), coq: format!("show_spec ({spec} s{k})"), imp: joined(&real), nontrivial: false, key: format!("spec:{key}") }, None);
            }
            if q.name == "implementer" {
                // the relation the code computes (C20_intro_implementer_exact); `q.spec` is the documented one
                out.add_spec(
                    Case { input: input("implementer (actual)"), coq: format!("show_spec (spec_implementer_actual s{k})"), imp: joined(&real), nontrivial: false, key: format!("specact:{key}") },
                    None,
                );
            }
        }
    }
    // ---- hinted enumerations
    let vis: Vec<String> = fx.visible().iter().map(|t| t.name.clone()).collect();
    if !vis.is_empty() {
        let a = vis[0].clone();
        let b = vis[vis.len() - 1].clone();
        let root = fx.root.clone();
        let absent = "NoSuchType".to_string();
        let mut trials: Vec<(String, String, Vec<String>, String, BTreeMap<Arc<str>, FieldValue>)> = vec![];
        let eq_q = "{ VertexType { name @filter(op: \"=\", value: [\"$n\"]) @output is_interface @output } }".to_string();
        let oo_q = "{ VertexType { name @filter(op: \"one_of\", value: [\"$l\"]) @output is_interface @output } }".to_string();
        for n in [a.clone(), root.clone(), absent.clone()] {
            let mut args: BTreeMap<Arc<str>, FieldValue> = BTreeMap::new();
            args.insert("n".into(), FieldValue::String(n.clone().into()));
            trials.push((format!("= {n}"), eq_q.clone(), vec![n.clone()], format!("(HSingleStr {})", cstr(&n)), args));
        }
        for l in [vec![a.clone(), b.clone(), absent.clone(), root.clone()], vec![a.clone(), a.clone()], vec![b.clone()], vec![], vec![b.clone(), a.clone(), b.clone()]] {
            let mut args: BTreeMap<Arc<str>, FieldValue> = BTreeMap::new();
            let vals: Vec<FieldValue> = l.iter().map(|x| FieldValue::String(x.clone().into())).collect();
            args.insert("l".into(), FieldValue::List(vals.into()));
            trials.push((format!("one_of {l:?}"), oo_q.clone(), l.clone(), hint_of_one_of(&l), args));
        }
        for (label, qtext, allowed, hint, args) in trials {
            let rows = match run_meta(meta, adapter.clone(), &qtext, args) {
                Ok(r) => r,
                Err(e) => {
                    out.oracle_fail("hinted meta-query failed", input(&label), json!({"error": e}));
                    continue;
                }
            };
            let real = render_rows(&rows, &["name", "is_interface"], None);
            // direct: the full enumeration filtered by name
            let want: Vec<String> = full_types.iter().filter(|r| allowed.iter().any(|n| r.starts_with(&format!("{},", rs(n))))).cloned().collect();
            let mut uniq = allowed.clone();
            uniq.sort();
            uniq.dedup();
            if real != want {
                if uniq.len() != allowed.len() {
                    out.count("hint:duplicate-rows");
                    out.oracle_fail_class("K-hint-duplicate-names", "a one_of filter on VertexType.name with a repeated name yields that vertex type repeatedly", input(&label), json!({"hinted": real, "filtered_full": want}));
                } else {
                    out.oracle_fail("hinted VertexType enumeration differs from the filtered full enumeration", input(&label), json!({"hinted": real, "filtered_full": want}));
                }
            }
            if !oracle_only {
                out.add(Case {
                    input: input(&label),
                    coq: format!("show_rows (q_types_filtered s{k} {hint} (fun n => mem n {}))", cstrs(&allowed)),
                    imp: joined(&real),
                    nontrivial: nontrivial && !real.is_empty(),
                    key: format!("hint:{label}#{}", p.sch.text),
                });
            }
        }
    }
    // ---- the introspection adapter satisfies the adapter contract
    let ok = catch_unwind(AssertUnwindSafe(|| check_adapter_invariants(meta, SchemaAdapter::new(&p.schema)))).is_ok();
    if !ok {
        out.oracle_fail("check_adapter_invariants(meta-schema, SchemaAdapter) failed", input("check_adapter_invariants"), json!({}));
    }
    if !oracle_only {
        out.add(Case {
            input: input("check_adapter_invariants(meta-schema, SchemaAdapter(schema))"),
            coq: format!("show_bool (check (schema_of_doc meta_doc) (intro_adapter s{k}))"),
            imp: rb(ok),
            nontrivial: false,
            key: format!("check#{}", p.sch.text),
        });
    }
}

fn run_c20(seed: u64, n: usize, oracle_only: bool, dir: &PathBuf) {
    let mut rejected = vec![];
    let ps = prepare(schema_stream(seed, n), &mut rejected);
    let imports = preamble("From TF Require Import Values Show Ty SchemaAst SchemaNew Introspect Checker.", &ps);
    let mut out = Out::new(dir, &imports, 400);
    for r in rejected {
        out.oracle_fail("a schema of the stream was not accepted by Schema::parse", r.clone(), json!({}));
    }
    let meta = Schema::parse(SchemaAdapter::schema_text()).expect("meta-schema");
    // the hand-written AST of the meta-schema (meta_doc) agrees with the real meta-schema on every relation
    if !oracle_only {
        let adapter = Arc::new(SchemaAdapter::new(&meta));
        for (q, text) in meta_queries() {
            if let Ok(rows) = run_meta(&meta, adapter.clone(), &text, BTreeMap::new()) {
                let real = render_rows(&rows, q.cols, q.json_col);
                out.add(Case {
                    input: json!({"origin": "meta", "what": "meta_doc (Introspect.v) vs the real meta-schema", "query": q.name}),
                    coq: format!("show_rows ({} (schema_of_doc meta_doc))", q.model),
                    imp: joined(&real),
                    nontrivial: false,
                    key: format!("meta_doc:{}", q.name),
                });
            }
        }
    }
    for (k, p) in ps.iter().enumerate() {
        c20_schema(&mut out, k, p, &meta, oracle_only);
    }
    out.extra.insert("schemas".into(), json!(ps.len()));
    out.finish();
}

// ------------------------------------------------------------------ c25: fault injection

#[derive(Clone, Debug, PartialEq)]
enum Target {
    Prop(String, String),
    Edge(String, String),
    Coerce(String, String),
}

#[derive(Clone, Copy, Debug)]
enum FaultKind {
    Swap(usize, usize),
    Reverse,
    Drop(usize),
    Dup(usize),
    Bad(usize),
    Panic,
}

const FAULTS: [FaultKind; 12] = [
    FaultKind::Swap(0, 1),
    FaultKind::Swap(3, 7),
    FaultKind::Reverse,
    FaultKind::Drop(0),
    FaultKind::Drop(4),
    FaultKind::Drop(8),
    FaultKind::Dup(0),
    FaultKind::Dup(8),
    FaultKind::Bad(0),
    FaultKind::Bad(5),
    FaultKind::Bad(8),
    FaultKind::Panic,
];

fn cfault(f: &FaultKind) -> String {
    match f {
        FaultKind::Swap(i, j) => format!("FSwap {i} {j}"),
        FaultKind::Reverse => "FReverse".into(),
        FaultKind::Drop(i) => format!("FDrop {i}"),
        FaultKind::Dup(i) => format!("FDup {i}"),
        FaultKind::Bad(i) => format!("FBad {i}"),
        FaultKind::Panic => "FPanic".into(),
    }
}
fn ctarget(t: &Target) -> String {
    match t {
        Target::Prop(a, b) => format!("TProp {} {}", cstr(a), cstr(b)),
        Target::Edge(a, b) => format!("TEdge {} {}", cstr(a), cstr(b)),
        Target::Coerce(a, b) => format!("TCoerce {} {}", cstr(a), cstr(b)),
    }
}

fn apply_fault<C: Clone, T>(kind: FaultKind, mut v: Vec<(C, T)>, bad: impl Fn() -> T, dup: impl Fn(&T) -> T) -> Vec<(C, T)> {
    match kind {
        FaultKind::Swap(i, j) => {
            if i < v.len() && j < v.len() {
                v.swap(i, j);
            }
        }
        FaultKind::Reverse => v.reverse(),
        FaultKind::Drop(i) => {
            if i < v.len() {
                v.remove(i);
            }
        }
        FaultKind::Dup(i) => {
            if i < v.len() {
                let c = v[i].0.clone();
                let t = dup(&v[i].1);
                v.insert(i + 1, (c, t));
            }
        }
        FaultKind::Bad(i) => {
            if i < v.len() {
                v[i].1 = bad();
            }
        }
        FaultKind::Panic => panic!("injected panic"),
    }
    v
}

/// An adapter that honours the contract and has no data at all.
#[derive(Clone, Debug)]
struct EmptyAdapter;

impl<'a> Adapter<'a> for EmptyAdapter {
    type Vertex = u64;
    fn resolve_starting_vertices(&self, _e: &Arc<str>, _p: &EdgeParameters, _i: &ResolveInfo) -> VertexIterator<'a, u64> {
        Box::new(std::iter::empty())
    }
    fn resolve_property<V: AsVertex<u64> + 'a>(&self, contexts: ContextIterator<'a, V>, _t: &Arc<str>, _p: &Arc<str>, _i: &ResolveInfo) -> ContextOutcomeIterator<'a, V, FieldValue> {
        Box::new(contexts.map(|c| (c, FieldValue::Null)))
    }
    fn resolve_neighbors<V: AsVertex<u64> + 'a>(&self, contexts: ContextIterator<'a, V>, _t: &Arc<str>, _e: &Arc<str>, _p: &EdgeParameters, _i: &ResolveEdgeInfo) -> ContextOutcomeIterator<'a, V, VertexIterator<'a, u64>> {
        Box::new(contexts.map(|c| {
            let it: VertexIterator<'a, u64> = Box::new(std::iter::empty());
            (c, it)
        }))
    }
    fn resolve_coercion<V: AsVertex<u64> + 'a>(&self, contexts: ContextIterator<'a, V>, _t: &Arc<str>, _c: &Arc<str>, _i: &ResolveInfo) -> ContextOutcomeIterator<'a, V, bool> {
        Box::new(contexts.map(|c| (c, false)))
    }
}

/// `inner` with one fault injected at one resolver target; records every resolver call it receives.
struct Faulty<A> {
    inner: A,
    fault: Option<(Target, FaultKind)>,
    log: Arc<Mutex<Vec<String>>>,
}

fn show_params(p: &EdgeParameters) -> String {
    let parts: Vec<String> = p.iter().map(|(k, v)| format!("{}={}", hex(k), show_fv(v))).collect();
    format!("{{{}}}", parts.join(";"))
}

impl<'a, A: Adapter<'a, Vertex = u64> + 'a> Adapter<'a> for Faulty<A> {
    type Vertex = u64;
    fn resolve_starting_vertices(&self, e: &Arc<str>, p: &EdgeParameters, i: &ResolveInfo) -> VertexIterator<'a, u64> {
        self.inner.resolve_starting_vertices(e, p, i)
    }
    fn resolve_property<V: AsVertex<u64> + 'a>(&self, contexts: ContextIterator<'a, V>, t: &Arc<str>, p: &Arc<str>, i: &ResolveInfo) -> ContextOutcomeIterator<'a, V, FieldValue> {
        self.log.lock().unwrap().push(format!("P:{t}.{p}"));
        let it = self.inner.resolve_property(contexts, t, p, i);
        match &self.fault {
            Some((Target::Prop(ft, fp), kind)) if ft.as_str() == t.as_ref() && fp.as_str() == p.as_ref() => {
                let v: Vec<(DataContext<V>, FieldValue)> = it.collect();
                Box::new(apply_fault(*kind, v, || FieldValue::Int64(1), |x| x.clone()).into_iter())
            }
            _ => it,
        }
    }
    fn resolve_neighbors<V: AsVertex<u64> + 'a>(&self, contexts: ContextIterator<'a, V>, t: &Arc<str>, e: &Arc<str>, p: &EdgeParameters, i: &ResolveEdgeInfo) -> ContextOutcomeIterator<'a, V, VertexIterator<'a, u64>> {
        self.log.lock().unwrap().push(format!("E:{t}.{e}{}", show_params(p)));
        let it = self.inner.resolve_neighbors(contexts, t, e, p, i);
        match &self.fault {
            Some((Target::Edge(ft, fe), kind)) if ft.as_str() == t.as_ref() && fe.as_str() == e.as_ref() => {
                let v: Vec<(DataContext<V>, VertexIterator<'a, u64>)> = it.collect();
                let bad = || -> VertexIterator<'a, u64> { Box::new(std::iter::once(0u64)) };
                let dup = |_: &VertexIterator<'a, u64>| -> VertexIterator<'a, u64> { Box::new(std::iter::empty()) };
                Box::new(apply_fault(*kind, v, bad, dup).into_iter())
            }
            _ => it,
        }
    }
    fn resolve_coercion<V: AsVertex<u64> + 'a>(&self, contexts: ContextIterator<'a, V>, t: &Arc<str>, c: &Arc<str>, i: &ResolveInfo) -> ContextOutcomeIterator<'a, V, bool> {
        self.log.lock().unwrap().push(format!("C:{t}>{c}"));
        let it = self.inner.resolve_coercion(contexts, t, c, i);
        match &self.fault {
            Some((Target::Coerce(ft, fc), kind)) if ft.as_str() == t.as_ref() && fc.as_str() == c.as_ref() => {
                let v: Vec<(DataContext<V>, bool)> = it.collect();
                Box::new(apply_fault(*kind, v, || true, |x| *x).into_iter())
            }
            _ => it,
        }
    }
}

/// Every resolver target a query over this schema can reach, with the uncovered class it lies in (if any).
fn all_targets(fx: &Facts) -> Vec<(Target, Option<&'static str>)> {
    let mut v = vec![];
    let root_reachable = fx.root_type().map(|r| !r.implements.is_empty()).unwrap_or(false);
    for t in &fx.types {
        let is_root = t.name == fx.root;
        if is_root && !root_reachable {
            continue;
        }
        let rootc = if is_root { Some("K-unchecked-root-type") } else { None };
        for f in &t.fields {
            if fx.is_edge(f) {
                let required = f.arguments.iter().any(|a| a.node.default_value.is_none() && !a.node.ty.node.nullable);
                let class = if is_root { rootc } else if required { Some("K-unchecked-required-parameter-edge") } else { None };
                v.push((Target::Edge(t.name.clone(), f.name.node.to_string()), class));
            } else {
                v.push((Target::Prop(t.name.clone(), f.name.node.to_string()), rootc));
            }
        }
        v.push((Target::Prop(t.name.clone(), "__typename".into()), rootc));
        for i in &t.implements {
            v.push((Target::Coerce(i.clone(), t.name.clone()), rootc));
        }
    }
    v
}

fn run_check<'a, A: Adapter<'a, Vertex = u64> + 'a>(schema: &Schema, inner: A, fault: Option<(Target, FaultKind)>) -> (bool, Vec<String>) {
    let log = Arc::new(Mutex::new(vec![]));
    let adapter = Faulty { inner, fault, log: log.clone() };
    let ok = catch_unwind(AssertUnwindSafe(|| check_adapter_invariants(schema, adapter))).is_ok();
    let l = log.lock().map(|g| g.clone()).unwrap_or_default();
    (ok, l)
}

fn c25_schema<'a, A: Adapter<'a, Vertex = u64> + Clone + 'a>(out: &mut Out, k: usize, p: &Prepared, inner: A, oracle_only: bool) {
    let fx = match facts(&p.doc) {
        Some(f) => f,
        None => return,
    };
    let input = |w: &str| json!({"origin": p.sch.origin, "what": p.sch.label, "case": w, "schema": p.sch.text});
    out.count(&format!("origin:{}", p.sch.origin));
    // ---- the contract-abiding adapter passes, and the probes it receives are the model's covered targets
    let (ok, log) = run_check(&p.schema, inner.clone(), None);
    if !ok {
        out.oracle_fail("check_adapter_invariants rejects a contract-abiding adapter", input("honest adapter"), json!({"calls": log}));
    }
    let mut calls = log.clone();
    calls.sort();
    if !oracle_only {
        out.add(Case { input: input("honest adapter"), coq: format!("show_bool (check s{k} honest)"), imp: rb(ok), nontrivial: true, key: format!("honest#{}", p.sch.text) });
        out.add(Case { input: input("resolver calls made by the checker"), coq: format!("show_targets s{k}"), imp: calls.join("|"), nontrivial: true, key: format!("targets#{}", p.sch.text) });
    }
    out.count_n("probes", calls.len() as u64);
    // ---- every single fault at every target
    for (t, class) in all_targets(&fx) {
        let mut verdicts = String::new();
        for f in FAULTS.iter() {
            let (ok, _) = run_check(&p.schema, inner.clone(), Some((t.clone(), *f)));
            verdicts.push(if ok { 'P' } else { 'F' });
        }
        let undetected: Vec<String> = FAULTS.iter().zip(verdicts.chars()).filter(|(_, c)| *c == 'P').map(|(f, _)| cfault(f)).collect();
        out.count_n("fault_runs", FAULTS.len() as u64);
        out.count(match (&t, class) {
            (_, Some(c)) => c,
            (Target::Prop(..), None) => "target:property",
            (Target::Edge(..), None) => "target:edge",
            (Target::Coerce(..), None) => "target:coercion",
        });
        if !undetected.is_empty() {
            let what = "a contract violation injected into the adapter is not detected by check_adapter_invariants";
            let detail = json!({"target": format!("{t:?}"), "undetected_faults": undetected});
            match class {
                Some(c) => out.oracle_fail_class(c, what, input(&format!("{t:?}")), detail),
                None => out.oracle_fail(what, input(&format!("{t:?}")), detail),
            }
        }
        if !oracle_only {
            let pairs: Vec<String> = FAULTS.iter().map(|f| format!("({}, {})", ctarget(&t), cfault(f))).collect();
            out.add(Case {
                input: input(&format!("12 single faults at {t:?}")),
                coq: format!("verdicts s{k} {}", clist(&pairs)),
                imp: verdicts,
                nontrivial: true,
                key: format!("{t:?}#{}", p.sch.text),
            });
        }
    }
}

/// The root query type really is reachable as a vertex: the engine calls resolve_coercion(Named -> Root) and
/// resolve_property(Root, __typename) for a query over the witness schema.
fn root_reachability_witness(out: &mut Out) {
    let schema = match Schema::parse(W_ROOT_IFACE) {
        Ok(s) => s,
        Err(_) => return,
    };
    let q = "{ things { self { ... on Root { __typename @output things { label @output } } } } }";
    let log = Arc::new(Mutex::new(vec![]));
    let adapter = Arc::new(Faulty { inner: OneThing, fault: None, log: log.clone() });
    let r = catch_unwind(AssertUnwindSafe(|| -> Result<usize, String> {
        let indexed = parse(&schema, q).map_err(|e| format!("{e}"))?;
        let it = interpret_ir(adapter, indexed, Arc::new(BTreeMap::new())).map_err(|e| format!("{e}"))?;
        Ok(it.count())
    }));
    let calls = log.lock().unwrap().clone();
    let reached = calls.iter().any(|c| c == "C:Named>Root") && calls.iter().any(|c| c == "P:Root.__typename") && calls.iter().any(|c| c.starts_with("E:Root.things"));
    out.extra.insert("root_reachability".into(), json!({"query": q, "outcome": format!("{r:?}"), "calls": calls, "root_resolvers_called": reached}));
    if !reached {
        out.oracle_fail("witness: the root query type was expected to be reachable through a coercion", json!({"schema": W_ROOT_IFACE, "query": q}), json!({"outcome": format!("{r:?}")}));
    }
}

/// A tiny adapter for W_ROOT_IFACE: vertex 1 is a Thing whose `self` edge leads to vertex 0, a Root.
#[derive(Clone, Debug)]
struct OneThing;
impl<'a> Adapter<'a> for OneThing {
    type Vertex = u64;
    fn resolve_starting_vertices(&self, _e: &Arc<str>, _p: &EdgeParameters, _i: &ResolveInfo) -> VertexIterator<'a, u64> {
        Box::new(std::iter::once(1u64))
    }
    fn resolve_property<V: AsVertex<u64> + 'a>(&self, contexts: ContextIterator<'a, V>, _t: &Arc<str>, p: &Arc<str>, _i: &ResolveInfo) -> ContextOutcomeIterator<'a, V, FieldValue> {
        let p = p.clone();
        Box::new(contexts.map(move |c| {
            let v = match c.active_vertex::<u64>() {
                Some(0) if p.as_ref() == "__typename" => FieldValue::String("Root".into()),
                Some(_) if p.as_ref() == "__typename" => FieldValue::String("Thing".into()),
                Some(_) => FieldValue::String("x".into()),
                None => FieldValue::Null,
            };
            (c, v)
        }))
    }
    fn resolve_neighbors<V: AsVertex<u64> + 'a>(&self, contexts: ContextIterator<'a, V>, _t: &Arc<str>, e: &Arc<str>, _p: &EdgeParameters, _i: &ResolveEdgeInfo) -> ContextOutcomeIterator<'a, V, VertexIterator<'a, u64>> {
        let e = e.clone();
        Box::new(contexts.map(move |c| {
            let ns: Vec<u64> = match (c.active_vertex::<u64>(), e.as_ref()) {
                (Some(1), "self") => vec![0],
                (Some(0), "things") => vec![1],
                _ => vec![],
            };
            let it: VertexIterator<'a, u64> = Box::new(ns.into_iter());
            (c, it)
        }))
    }
    fn resolve_coercion<V: AsVertex<u64> + 'a>(&self, contexts: ContextIterator<'a, V>, _t: &Arc<str>, to: &Arc<str>, _i: &ResolveInfo) -> ContextOutcomeIterator<'a, V, bool> {
        let to = to.clone();
        Box::new(contexts.map(move |c| {
            let ok = match c.active_vertex::<u64>() {
                Some(0) => to.as_ref() == "Root" || to.as_ref() == "Named",
                Some(_) => to.as_ref() == "Thing" || to.as_ref() == "Named",
                None => false,
            };
            (c, ok)
        }))
    }
}

fn run_c25(seed: u64, n: usize, oracle_only: bool, dir: &PathBuf) {
    let mut rejected = vec![];
    let ps = prepare(schema_stream(seed, n), &mut rejected);
    let imports = preamble("From TF Require Import Values Show Ty SchemaAst SchemaNew Introspect Checker.", &ps);
    let mut out = Out::new(dir, &imports, 150);
    for r in rejected {
        out.oracle_fail("a schema of the stream was not accepted by Schema::parse", r.clone(), json!({}));
    }
    root_reachability_witness(&mut out);
    let mut rng = Rng::new(seed ^ 0xC25);
    for (k, p) in ps.iter().enumerate() {
        if p.sch.origin == "world" {
            let ds = world::gen_dataset(&mut rng, 8);
            c25_schema(&mut out, k, p, world::GraphAdapter::new(ds), oracle_only);
        } else {
            c25_schema(&mut out, k, p, EmptyAdapter, oracle_only);
        }
    }
    out.extra.insert("schemas".into(), json!(ps.len()));
    out.finish();
}

// ------------------------------------------------------------------ main

fn probe(files: &[String]) {
    let meta = Schema::parse(SchemaAdapter::schema_text()).expect("meta-schema");
    for f in files {
        let text = std::fs::read_to_string(f).unwrap();
        let doc = match parse_schema(&text) {
            Ok(d) => d,
            Err(e) => {
                println!("{f}: PARSE ERROR {e}");
                continue;
            }
        };
        println!("{f}:\n  ast = {}", cdoc(&doc).unwrap_or_else(|| "<unsupported construct>".into()));
        let schema = match Schema::parse(&text) {
            Ok(s) => s,
            Err(e) => {
                println!("  rejected: {e}");
                continue;
            }
        };
        let adapter = Arc::new(SchemaAdapter::new(&schema));
        for (q, qt) in meta_queries() {
            match run_meta(&meta, adapter.clone(), &qt, BTreeMap::new()) {
                Ok(rows) => println!("  {} = {}", q.name, joined(&render_rows(&rows, q.cols, q.json_col))),
                Err(e) => println!("  {} = ERROR {e}", q.name),
            }
        }
    }
}

fn main() {
    let argv: Vec<String> = std::env::args().collect();
    if argv.len() < 2 {
        eprintln!("usage: tfh_intro c20|c25 [--seed S] [--n N] [--out DIR] [--oracle-only] | tfh_intro probe FILE...");
        std::process::exit(2);
    }
    if std::env::var("INTRO_LOUD").is_err() {
        std::panic::set_hook(Box::new(|_| {}));
    }
    match argv[1].as_str() {
        "c20" => {
            let args = parse_args(&argv[2..]);
            run_c20(args.seed, args.n, args.rest.iter().any(|x| x == "--oracle-only"), &args.out);
        }
        "c25" => {
            let args = parse_args(&argv[2..]);
            run_c25(args.seed, args.n, args.rest.iter().any(|x| x == "--oracle-only"), &args.out);
        }
        "probe" => probe(&argv[2..]),
        other => {
            eprintln!("unknown subcommand {other}");
            std::process::exit(2);
        }
    }
}
