//! tfh_probe <query-file>... : run the real frontend on hand-written query texts over the world schema
//! and print OK / ERR / PANIC (with the message) for each.  A debugging aid, not part of any check.
#[path = "../coq.rs"] mod coq;
#[path = "../rng.rs"] mod rng;
#[path = "../show.rs"] mod show;
#[path = "../world.rs"] mod world;
use std::panic::{catch_unwind, AssertUnwindSafe};

fn main() {
    std::panic::set_hook(Box::new(|_| {}));
    let schema = world::schema();
    for f in std::env::args().skip(1) {
        let text = std::fs::read_to_string(&f).expect("query file");
        let r = catch_unwind(AssertUnwindSafe(|| trustfall_core::frontend::parse(&schema, &text)));
        match r {
            Ok(Ok(_)) => println!("{f}: OK"),
            Ok(Err(e)) => println!("{f}: ERR {e:?}"),
            Err(e) => {
                let m = e.downcast_ref::<String>().cloned().or_else(|| e.downcast_ref::<&str>().map(|s| s.to_string())).unwrap_or_default();
                println!("{f}: PANIC {m}");
            }
        }
    }
}
