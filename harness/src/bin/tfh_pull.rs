//! tfh_pull — C02 (results do not depend on how adapters batch / pre-fetch) and C15 (recorded
//! traces replay to the same results).
//!
//! usage: tfh_pull <c02|c15> --seed S --n N --out DIR [--oracle-only] [--scheds K]
//!
//! c02  oracle: every generated world (dataset + query + arguments accepted by the real frontend) is
//!              run with the plain `GraphAdapter` and then through `BatchingAdapter` under many
//!              schedules (per resolver call: buffer the INPUT context iterator and/or the OUTPUT
//!              iterator with a VariableChunkIterator-like buffer, eager pre-fetch inside the
//!              resolver call, chunk sequences).  Row SEQUENCE and absence of panics must be equal.
//!      tie:    `Pull.v` (the pull machine with carriers) against the same pipelines built from real
//!              Rust iterators / closures / `Rc<RefCell<Option<()>>>` carriers.
//! c15  oracle: direct run == run through the real `AdapterTap` + `tap_results`; the finished `Trace`
//!              is serialised with `ron` and `serde_json`, deserialised, and replayed with
//!              `replay::assert_interpreted_results(.., complete = true)` under catch_unwind; the
//!              same through batching schedules so that AdvanceInputIterator patterns vary.
//!      tie:    `Interact.v` (run / record / replay of interaction trees) against a direct-style
//!              Rust interpreter with an oracle object, a recording wrapper and a trace reader.
#[path = "../coq.rs"]
mod coq;
#[path = "../engine.rs"]
mod engine;
#[path = "../irprint.rs"]
mod irprint;
#[path = "../out.rs"]
mod out;
#[path = "../qgen.rs"]
mod qgen;
#[path = "../rng.rs"]
mod rng;
#[path = "../show.rs"]
mod show;
#[path = "../world.rs"]
mod world;

use engine::*;
use out::{Case, Out};
use rng::Rng;
use serde_json::{json, Value};
use std::cell::RefCell;
use std::collections::{BTreeMap, VecDeque};
use std::panic::{catch_unwind, AssertUnwindSafe};
use std::path::PathBuf;
use std::rc::Rc;
use std::sync::Arc;
use trustfall_core::interpreter::execution::interpret_ir;
use trustfall_core::interpreter::replay::assert_interpreted_results;
use trustfall_core::interpreter::trace::{tap_results, AdapterTap, Trace, TraceOpContent};
use trustfall_core::interpreter::{
    Adapter, AsVertex, ContextIterator, ContextOutcomeIterator, ResolveEdgeInfo, ResolveInfo,
    VertexIterator,
};
use trustfall_core::ir::{EdgeParameters, FieldValue};
use world::*;

// ------------------------------------------------------------------ CLI

pub struct Args {
    pub seed: u64,
    pub n: usize,
    pub out: PathBuf,
    pub rest: Vec<String>,
}

fn parse_args(v: &[String]) -> Args {
    let mut a = Args { seed: 0, n: 100, out: PathBuf::from("."), rest: vec![] };
    let mut i = 0;
    while i < v.len() {
        match v[i].as_str() {
            "--seed" => {
                a.seed = v[i + 1].parse().unwrap();
                i += 2;
            }
            "--n" => {
                a.n = v[i + 1].parse().unwrap();
                i += 2;
            }
            "--out" => {
                a.out = PathBuf::from(&v[i + 1]);
                i += 2;
            }
            _ => {
                a.rest.push(v[i].clone());
                i += 1;
            }
        }
    }
    a
}

fn flag_value(rest: &[String], name: &str) -> Option<usize> {
    rest.iter().position(|x| x == name).and_then(|i| rest.get(i + 1)).and_then(|x| x.parse().ok())
}

// ------------------------------------------------------------------ the chunking buffer

/// `usize::MAX / 4` stands for "everything".
const ALL: usize = usize::MAX / 4;

/// VariableChunkIterator of the repository's fuzz target, with an explicit list of chunk sizes
/// (`Pull.v::Buf`): `new` pre-fetches the first chunk when `eager`; `next` on an empty buffer pulls
/// one element and then `chunk - 1` more.  After the list is used up every chunk is 1.
struct ChunkIter<I: Iterator> {
    iter: I,
    buffer: VecDeque<I::Item>,
    sched: VecDeque<usize>,
    /// `Some(done)`: never poll the input again once it returned None (the repository's
    /// VariableChunkIterator does poll again: `None` here)
    fused: Option<bool>,
}

impl<I: Iterator> ChunkIter<I> {
    fn new(iter: I, mut sched: VecDeque<usize>, eager: bool, polite: bool) -> Self {
        let mut me = ChunkIter { iter, buffer: VecDeque::new(), sched: VecDeque::new(), fused: if polite { Some(false) } else { None } };
        if eager {
            if let Some(k0) = sched.pop_front() {
                me.fill(k0);
            }
        }
        me.sched = sched;
        me
    }
    /// `buffer.extend(iter.by_ref().take(k))`
    fn fill(&mut self, k: usize) {
        for _ in 0..k {
            match self.poll() {
                Some(x) => self.buffer.push_back(x),
                None => break,
            }
        }
    }
    fn poll(&mut self) -> Option<I::Item> {
        if self.fused == Some(true) {
            return None;
        }
        let x = self.iter.next();
        if x.is_none() && self.fused.is_some() {
            self.fused = Some(true);
        }
        x
    }
}

impl<I: Iterator> Iterator for ChunkIter<I> {
    type Item = I::Item;
    fn next(&mut self) -> Option<I::Item> {
        if let Some(x) = self.buffer.pop_front() {
            Some(x)
        } else {
            let next = self.poll();
            if next.is_some() {
                let k = self.sched.pop_front().unwrap_or(1);
                self.fill(k.saturating_sub(1));
            }
            next
        }
    }
}

// ------------------------------------------------------------------ schedules and the batching adapter

/// What the adapter does in ONE resolver call.
#[derive(Clone, Debug, Default)]
struct CallSched {
    /// pre-fetch inside the resolver call (VariableChunkIterator::new) or only at the first pull
    eager: bool,
    /// never poll an input again after it returned None
    polite: bool,
    /// chunk sizes of the buffer around the INPUT context iterator (None = not buffered)
    input: Option<Vec<usize>>,
    /// chunk sizes of the buffer around the OUTPUT iterator (None = not buffered)
    output: Option<Vec<usize>>,
    /// chunk size of the buffer around every neighbour iterator (resolve_neighbors only)
    inner: Option<usize>,
}

fn chunk_json(k: usize) -> Value {
    if k >= ALL { json!("all") } else { json!(k) }
}

/// chunk list with runs compressed: [2,2,2,1] -> ["2 x3", 1]
fn chunks_json(v: &[usize]) -> Value {
    let mut out: Vec<Value> = vec![];
    let mut i = 0;
    while i < v.len() {
        let mut j = i;
        while j < v.len() && v[j] == v[i] {
            j += 1;
        }
        if j - i >= 3 {
            out.push(json!(format!("{} x{}", chunk_json(v[i]), j - i)));
        } else {
            for _ in i..j {
                out.push(chunk_json(v[i]));
            }
        }
        i = j;
    }
    Value::Array(out)
}

impl CallSched {
    fn to_json(&self) -> Value {
        json!({
            "eager": self.eager,
            "polite": self.polite,
            "input": self.input.as_ref().map(|v| chunks_json(v)),
            "output": self.output.as_ref().map(|v| chunks_json(v)),
            "inner": self.inner.map(chunk_json),
        })
    }
}

/// A schedule for a whole run: the i-th resolver call (in call order, starting vertices included)
/// uses `calls[i]`; later calls use `rest`.
#[derive(Clone, Debug, Default)]
struct Schedule {
    name: String,
    calls: Vec<CallSched>,
    rest: CallSched,
}

impl Schedule {
    fn to_json(&self) -> Value {
        json!({"name": self.name, "calls": self.calls.iter().map(|c| c.to_json()).collect::<Vec<_>>(), "rest": self.rest.to_json()})
    }
}

struct BatchingAdapter {
    inner: GraphAdapter,
    schedule: Schedule,
    next_call: RefCell<usize>,
    /// number of elements the GraphAdapter's iterators have yielded (a measure of the run's size)
    items: Rc<std::cell::Cell<u64>>,
}

impl BatchingAdapter {
    fn new(inner: GraphAdapter, schedule: Schedule) -> Self {
        BatchingAdapter { inner, schedule, next_call: RefCell::new(0), items: Rc::new(std::cell::Cell::new(0)) }
    }
    fn next_sched(&self) -> CallSched {
        let mut r = self.next_call.borrow_mut();
        let i = *r;
        *r += 1;
        drop(r);
        self.schedule.calls.get(i).cloned().unwrap_or_else(|| self.schedule.rest.clone())
    }
    fn calls(&self) -> usize {
        *self.next_call.borrow()
    }
    fn items(&self) -> u64 {
        self.items.get()
    }
    fn counted<'a, T: 'a>(&self, it: Box<dyn Iterator<Item = T> + 'a>) -> Box<dyn Iterator<Item = T> + 'a> {
        let items = self.items.clone();
        Box::new(it.inspect(move |_| items.set(items.get() + 1)))
    }
}

fn buffered<'a, T: 'a>(it: Box<dyn Iterator<Item = T> + 'a>, sched: &Option<Vec<usize>>, eager: bool, polite: bool) -> Box<dyn Iterator<Item = T> + 'a> {
    match sched {
        None => it,
        Some(v) => Box::new(ChunkIter::new(it, v.iter().copied().collect(), eager, polite)),
    }
}

impl<'a> Adapter<'a> for BatchingAdapter {
    type Vertex = u64;

    fn resolve_starting_vertices(
        &self,
        edge_name: &Arc<str>,
        parameters: &EdgeParameters,
        resolve_info: &ResolveInfo,
    ) -> VertexIterator<'a, Self::Vertex> {
        let cs = self.next_sched();
        let inner = self.counted(self.inner.resolve_starting_vertices(edge_name, parameters, resolve_info));
        buffered(inner, &cs.output, cs.eager, cs.polite)
    }

    fn resolve_property<V: AsVertex<Self::Vertex> + 'a>(
        &self,
        contexts: ContextIterator<'a, V>,
        type_name: &Arc<str>,
        property_name: &Arc<str>,
        resolve_info: &ResolveInfo,
    ) -> ContextOutcomeIterator<'a, V, FieldValue> {
        let cs = self.next_sched();
        let contexts = buffered(contexts, &cs.input, cs.eager, cs.polite);
        let inner = self.counted(self.inner.resolve_property(contexts, type_name, property_name, resolve_info));
        buffered(inner, &cs.output, cs.eager, cs.polite)
    }

    fn resolve_neighbors<V: AsVertex<Self::Vertex> + 'a>(
        &self,
        contexts: ContextIterator<'a, V>,
        type_name: &Arc<str>,
        edge_name: &Arc<str>,
        parameters: &EdgeParameters,
        resolve_info: &ResolveEdgeInfo,
    ) -> ContextOutcomeIterator<'a, V, VertexIterator<'a, Self::Vertex>> {
        let cs = self.next_sched();
        let contexts = buffered(contexts, &cs.input, cs.eager, cs.polite);
        let inner = self.counted(self.inner.resolve_neighbors(contexts, type_name, edge_name, parameters, resolve_info));
        let inner_chunk = cs.inner;
        let eager = cs.eager;
        let polite = cs.polite;
        let inner: ContextOutcomeIterator<'a, V, VertexIterator<'a, u64>> = match inner_chunk {
            None => inner,
            Some(k) => Box::new(inner.map(move |(ctx, ns)| {
                let ns: VertexIterator<'a, u64> = Box::new(ChunkIter::new(ns, std::iter::repeat(k).take(8).collect(), eager, polite));
                (ctx, ns)
            })),
        };
        buffered(inner, &cs.output, cs.eager, cs.polite)
    }

    fn resolve_coercion<V: AsVertex<Self::Vertex> + 'a>(
        &self,
        contexts: ContextIterator<'a, V>,
        type_name: &Arc<str>,
        coerce_to_type: &Arc<str>,
        resolve_info: &ResolveInfo,
    ) -> ContextOutcomeIterator<'a, V, bool> {
        let cs = self.next_sched();
        let contexts = buffered(contexts, &cs.input, cs.eager, cs.polite);
        let inner = self.counted(self.inner.resolve_coercion(contexts, type_name, coerce_to_type, resolve_info));
        buffered(inner, &cs.output, cs.eager, cs.polite)
    }
}

const SYS_CHUNKS: [usize; 4] = [1, 2, 3, ALL];

/// how the batching adapters of one family behave
#[derive(Clone, Copy, Debug)]
struct Mode {
    /// may pre-fetch inside the resolver call
    eager: bool,
    /// never polls an exhausted input again (None = chosen per call)
    polite: Option<bool>,
}

fn uniform_call(k: usize, mode: Mode, input: bool, output: bool) -> CallSched {
    CallSched {
        eager: mode.eager,
        polite: mode.polite.unwrap_or(false),
        input: if input { Some(vec![k; 64]) } else { None },
        output: if output { Some(vec![k; 64]) } else { None },
        inner: None,
    }
}

fn random_chunks(rng: &mut Rng) -> Vec<usize> {
    let n = 1 + rng.below(6);
    (0..n).map(|_| *rng.pick(&[1usize, 1, 2, 2, 3, 4, 7, ALL])).collect()
}

fn random_call(rng: &mut Rng, m: Mode) -> CallSched {
    let mode = rng.below(4);
    CallSched {
        eager: m.eager && rng.chance(2, 3),
        polite: m.polite.unwrap_or_else(|| rng.chance(1, 2)),
        input: if mode == 0 || mode == 2 { Some(random_chunks(rng)) } else { None },
        output: if mode == 1 || mode == 2 { Some(random_chunks(rng)) } else { None },
        inner: if rng.chance(1, 4) { Some(*rng.pick(&[1usize, 2, 3, ALL])) } else { None },
    }
}

/// The schedules tried on one case with `calls` resolver calls in the unbuffered run.
fn schedules_for(rng: &mut Rng, calls: usize, budget: usize, mode: Mode) -> Vec<Schedule> {
    let mut v = vec![];
    // every call, same chunk size, eager, input and output both buffered
    for k in SYS_CHUNKS {
        v.push(Schedule { name: format!("uniform-{}", if k >= ALL { "all".to_string() } else { k.to_string() }), calls: vec![], rest: uniform_call(k, mode, true, true) });
    }
    // the repository's own default: output buffered with chunk 1 (pre-fetch one element in the call)
    v.push(Schedule { name: "repo-default".into(), calls: vec![], rest: uniform_call(1, mode, false, true) });
    // systematic family: {1,2,3,all}^m on the first m <= 5 calls (input buffered, eager), the rest unbuffered
    let m = calls.min(5);
    let total = 4usize.pow(m as u32);
    let take_all = total <= budget;
    let count = if take_all { total } else { budget };
    let mut seen = std::collections::BTreeSet::new();
    let mut idx = 0usize;
    while seen.len() < count {
        let code = if take_all {
            idx
        } else {
            rng.below(total)
        };
        idx += 1;
        if !seen.insert(code) {
            continue;
        }
        let mut c = code;
        let mut cs = vec![];
        let mut name = String::from("sys-");
        for _ in 0..m {
            let k = SYS_CHUNKS[c % 4];
            c /= 4;
            name.push_str(&if k >= ALL { "a".to_string() } else { k.to_string() });
            cs.push(uniform_call(k, mode, true, false));
        }
        v.push(Schedule { name, calls: cs, rest: CallSched::default() });
    }
    // seeded random: every call its own behaviour
    for i in 0..(budget / 2).max(4) {
        let cs: Vec<CallSched> = (0..calls + 2).map(|_| random_call(rng, mode)).collect();
        v.push(Schedule { name: format!("random-{i}"), calls: cs, rest: random_call(rng, mode) });
    }
    v
}

fn run_batched(c: &EngineCase, s: &Schedule) -> (Outcome, usize, u64) {
    #[allow(clippy::arc_with_non_send_sync)]
    let ad = Arc::new(BatchingAdapter::new(GraphAdapter::new(c.dataset.clone()), s.clone()));
    let o = run_with(ad.clone(), c.indexed.clone(), c.args.clone());
    let calls = ad.calls();
    let items = ad.items();
    (o, calls, items)
}

fn size_bucket(items: u64) -> &'static str {
    match items {
        0..=9 => "0-9",
        10..=99 => "10-99",
        100..=999 => "100-999",
        1000..=9999 => "1000-9999",
        10000..=99999 => "10000-99999",
        _ => "100000+",
    }
}

fn outcome_detail(o: &Outcome) -> Value {
    match o {
        Outcome::Panic(m) => json!({"panic": m.chars().take(300).collect::<String>()}),
        other => json!(show_outcome(other)),
    }
}

// ------------------------------------------------------------------ C02: the Pull.v mirror

#[derive(Clone, Debug)]
enum Fn1 {
    Inc(i128),
    Keep(i128, i128),
    Rep(i128),
    Pair(i128),
}

fn app_fn(f: &Fn1, x: i128) -> Vec<i128> {
    match f {
        Fn1::Inc(k) => vec![x + k],
        Fn1::Keep(m, r) => if x.rem_euclid(*m) == *r { vec![x] } else { vec![] },
        Fn1::Rep(m) => vec![x; x.rem_euclid(*m) as usize],
        Fn1::Pair(k) => vec![x, x * 2 + k],
    }
}

#[derive(Clone, Debug)]
enum Fin {
    Sum,
    NonEmpty,
    LenMod(i128),
}

fn app_fin(g: &Fin, x: i128, l: &[i128]) -> Option<i128> {
    match g {
        Fin::Sum => Some(x + l.iter().sum::<i128>()),
        Fin::NonEmpty => if l.is_empty() { None } else { Some(x * 10 + l.len() as i128) },
        Fin::LenMod(m) => if (l.len() as i128).rem_euclid(*m) == 0 { Some(x + l.iter().sum::<i128>()) } else { None },
    }
}

#[derive(Clone, Debug)]
enum SPlan {
    Done,
    Resolve(Vec<usize>, Fn1, Box<SPlan>),
    Nested(bool, Box<SPlan>, Fn1, Fin, Box<SPlan>),
}

type It = Box<dyn Iterator<Item = i128>>;
/// `QueryCarrier { query: Option<InterpretedQuery> }`
type Carrier = Rc<RefCell<Option<()>>>;

/// compute_component / construct_outputs in miniature: one resolver after the other, each
/// construction doing take / adapter call (eager buffer over the input) / put.
fn build(cell: &Carrier, plan: &SPlan, up: It) -> It {
    match plan {
        SPlan::Done => up,
        SPlan::Resolve(sched, k, rest) => {
            let query = cell.borrow_mut().take().expect("query was not returned");
            let resolved = ChunkIter::new(up, sched.iter().copied().collect(), true, false);
            *cell.borrow_mut() = Some(query);
            let k = k.clone();
            let it: It = Box::new(resolved.flat_map(move |x| app_fn(&k, x)));
            build(cell, rest, it)
        }
        SPlan::Nested(own, inner, nb, fin, rest) => {
            let cloned: Carrier = if *own { Rc::new(RefCell::new(*cell.borrow())) } else { cell.clone() };
            let inner = inner.clone();
            let nb = nb.clone();
            let fin = fin.clone();
            let it: It = Box::new(up.filter_map(move |x| {
                let src: It = Box::new(app_fn(&nb, x).into_iter());
                let elems: Vec<i128> = build(&cloned, &inner, src).collect();
                app_fin(&fin, x, &elems)
            }));
            build(cell, rest, it)
        }
    }
}

fn run_mirror(plan: &SPlan, src: &[i128]) -> String {
    let plan = plan.clone();
    let src = src.to_vec();
    let r = catch_unwind(AssertUnwindSafe(move || {
        let cell: Carrier = Rc::new(RefCell::new(Some(())));
        let it = build(&cell, &plan, Box::new(src.into_iter()));
        it.collect::<Vec<i128>>()
    }));
    match r {
        Ok(rows) => format!("ROWS:{}", rows.iter().map(|x| x.to_string()).collect::<Vec<_>>().join(",")),
        Err(_) => "PANIC".to_string(),
    }
}

fn gen_fn(rng: &mut Rng) -> Fn1 {
    match rng.below(6) {
        0 | 1 => Fn1::Inc(rng.range(-2, 3) as i128),
        2 => Fn1::Keep(rng.range(2, 3) as i128, rng.range(0, 1) as i128),
        3 | 4 => Fn1::Rep(rng.range(2, 4) as i128),
        _ => Fn1::Pair(rng.range(-1, 1) as i128),
    }
}

fn gen_sched(rng: &mut Rng) -> Vec<usize> {
    let n = rng.below(5);
    (0..n).map(|_| *rng.pick(&[0usize, 1, 1, 2, 2, 3, 5, 40])).collect()
}

fn gen_splan(rng: &mut Rng, depth: usize, len: usize, shared_ok: bool) -> SPlan {
    if len == 0 {
        return SPlan::Done;
    }
    let rest = Box::new(gen_splan(rng, depth, len - 1, shared_ok));
    if depth > 0 && rng.chance(if shared_ok { 3 } else { 2 }, 6) {
        let own = !(shared_ok && rng.chance(2, 3));
        let inner_len = rng.below(3);
        let inner = Box::new(gen_splan(rng, depth - 1, inner_len, shared_ok));
        let fin = match rng.below(3) {
            0 => Fin::Sum,
            1 => Fin::NonEmpty,
            _ => Fin::LenMod(2),
        };
        SPlan::Nested(own, inner, gen_fn(rng), fin, rest)
    } else {
        SPlan::Resolve(gen_sched(rng), gen_fn(rng), rest)
    }
}

fn cnat(k: usize) -> String {
    format!("{k}%nat")
}
fn czs(z: i128) -> String {
    if z < 0 { format!("({z})%Z") } else { format!("{z}%Z") }
}

fn fn_coq(f: &Fn1) -> String {
    match f {
        Fn1::Inc(k) => format!("(FInc {})", czs(*k)),
        Fn1::Keep(m, r) => format!("(FKeep {} {})", czs(*m), czs(*r)),
        Fn1::Rep(m) => format!("(FRep {})", czs(*m)),
        Fn1::Pair(k) => format!("(FPair {})", czs(*k)),
    }
}

fn fin_coq(g: &Fin) -> String {
    match g {
        Fin::Sum => "FinSum".into(),
        Fin::NonEmpty => "FinNonEmpty".into(),
        Fin::LenMod(m) => format!("(FinLenMod {})", czs(*m)),
    }
}

fn splan_coq(p: &SPlan) -> String {
    match p {
        SPlan::Done => "SDone".into(),
        SPlan::Resolve(s, k, r) => format!(
            "(SResolve {} {} {})",
            coq::clist(&s.iter().map(|k| cnat(*k)).collect::<Vec<_>>()),
            fn_coq(k),
            splan_coq(r)
        ),
        SPlan::Nested(o, i, nb, g, r) => format!("(SNested {} {} {} {} {})", coq::cbool(*o), splan_coq(i), fn_coq(nb), fin_coq(g), splan_coq(r)),
    }
}

fn splan_has_nested(p: &SPlan) -> bool {
    match p {
        SPlan::Done => false,
        SPlan::Resolve(_, _, r) => splan_has_nested(r),
        SPlan::Nested(..) => true,
    }
}

fn splan_eager(p: &SPlan) -> bool {
    match p {
        SPlan::Done => false,
        SPlan::Resolve(s, _, r) => s.first().map(|k| *k > 0).unwrap_or(false) || splan_eager(r),
        SPlan::Nested(_, i, _, _, r) => splan_eager(i) || splan_eager(r),
    }
}

/// same plan, every schedule emptied (the adapter that never reads ahead)
fn splan_lazy(p: &SPlan) -> SPlan {
    match p {
        SPlan::Done => SPlan::Done,
        SPlan::Resolve(_, k, r) => SPlan::Resolve(vec![], k.clone(), Box::new(splan_lazy(r))),
        SPlan::Nested(o, i, nb, g, r) => SPlan::Nested(*o, Box::new(splan_lazy(i)), nb.clone(), g.clone(), Box::new(splan_lazy(r))),
    }
}

fn splan_well_cloned(p: &SPlan) -> bool {
    match p {
        SPlan::Done => true,
        SPlan::Resolve(_, _, r) => splan_well_cloned(r),
        SPlan::Nested(o, i, _, _, r) => *o && splan_well_cloned(i) && splan_well_cloned(r),
    }
}

fn pull_tie(rng: &mut Rng, count: usize, out: &mut Out) {
    for i in 0..count {
        let shared_ok = i % 4 == 3;
        let len = 1 + rng.below(4);
        let plan = if i % 8 == 7 {
            // the issue-205 shape: a closure sharing its constructor's carrier, then a resolver
            // that pre-fetches inside its call
            let post_len = rng.below(2);
            let post = gen_splan(rng, 1, post_len, true);
            let mut sched = gen_sched(rng);
            sched.insert(0, 1 + rng.below(3));
            let mid = SPlan::Resolve(sched, gen_fn(rng), Box::new(post));
            let inner_len = rng.below(3);
            let inner = gen_splan(rng, 1, inner_len, true);
            let mut p = SPlan::Nested(false, Box::new(inner), gen_fn(rng), Fin::Sum, Box::new(mid));
            for _ in 0..rng.below(3) {
                p = SPlan::Resolve(gen_sched(rng), gen_fn(rng), Box::new(p));
            }
            p
        } else {
            gen_splan(rng, 2, len, shared_ok)
        };
        let n = rng.below(7);
        let src: Vec<i128> = (0..n).map(|_| rng.range(0, 9) as i128).collect();
        let imp = run_mirror(&plan, &src);
        // the property on the mirror itself: a well-cloned plan never panics and agrees with its lazy version
        if splan_well_cloned(&plan) {
            let lazy = run_mirror(&splan_lazy(&plan), &src);
            if imp != lazy || imp == "PANIC" {
                out.oracle_fail(
                    "mirror pipeline: buffered run differs from the unbuffered run",
                    json!({"plan": format!("{plan:?}"), "src": src.iter().map(|x| x.to_string()).collect::<Vec<_>>()}),
                    json!({"buffered": imp, "unbuffered": lazy}),
                );
            }
        }
        out.count(if imp == "PANIC" { "tie:panic" } else { "tie:rows" });
        let src_coq = coq::clist(&src.iter().map(|z| czs(*z)).collect::<Vec<_>>());
        out.add(Case {
            input: json!({"plan": format!("{plan:?}"), "src": src.iter().map(|x| x.to_string()).collect::<Vec<_>>()}),
            coq: format!("run_show {} {}", splan_coq(&plan), src_coq),
            imp,
            nontrivial: !src.is_empty() && (splan_has_nested(&plan) || splan_eager(&plan)),
            key: format!("{plan:?}/{src:?}"),
        });
    }
}

// ------------------------------------------------------------------ C02 oracle

fn run_c02(seed: u64, n: usize, oracle_only: bool, budget: usize, out: &mut Out) {
    let mut rng = Rng::new(seed);
    let schema = world::schema();
    let mut stats = GenStats { generated: 0, frontend_rejected: 0, frontend_panicked: 0, reject_kinds: Default::default() };
    let mut runs = 0u64;
    let mut max_calls = 0usize;
    // next to the generated worlds: tags defined inside an @optional scope and used by filters inside a
    // later @fold (imported tags) or on a later vertex, where adjacent contexts differ in whether the
    // scope exists - the places where the engine pairs a resolver's outputs with per-context state
    let optional_tag_family = (n / 5).max(40);
    let deep_recursion_family = (n / 8).max(30);
    for i in 0..(n + optional_tag_family + deep_recursion_family) {
        let c = if i < n {
            gen_case(&mut rng, &schema, &mut stats, 0)
        } else if i >= n + optional_tag_family {
            // deep @recurse through the implicitly coerced edge (a resolve_coercion between the levels, where
            // some contexts are already finished), also inside an @optional scope
            let mut r2 = rng.fork();
            let root = *r2.pick(&["Item", "Box", "Leaf"]);
            let d = r2.range(2, 5);
            let hi = *r2.pick(&["", "(hi: 1000)", "(hi: 6)"]);
            let text = match r2.range(0, 2) {
                0 => format!("query {{ {root} {{ id @output(name: \"r\") up{hi} @recurse(depth: {d}) {{ id @output }} }} }}"),
                1 => format!("query {{ {root} {{ id @output(name: \"r\") next @optional {{ ... on Item {{ id @output(name: \"m\") up{hi} @recurse(depth: {d}) {{ id @output }} }} }} }} }}"),
                _ => format!("query {{ {root} {{ id @output(name: \"r\") up{hi} @recurse(depth: {d}) {{ id @output link @fold {{ id @output(name: \"l\") }} }} }} }}"),
            };
            let indexed = match trustfall_core::frontend::parse(&schema, &text) {
                Ok(ix) => ix,
                Err(e) => {
                    out.oracle_fail("deep-recursion template was rejected by the frontend", json!({"query": text}), json!({"error": format!("{e:?}")}));
                    continue;
                }
            };
            out.count("family:deep-recursion");
            EngineCase {
                dataset: world::gen_dataset(&mut r2, 9),
                query_text: text,
                indexed,
                args: std::sync::Arc::new(Default::default()),
                features: Default::default(),
                var_hints: Default::default(),
            }
        } else {
            let mut r2 = rng.fork();
            let root = *r2.pick(&["Thing", "Item", "Box", "Gadget"]);
            let e1 = *r2.pick(&["parent", "next(hi: 4)", "next(lo: 3)", "link"]);
            let e2 = *r2.pick(&["next", "link", "next(hi: 9)"]);
            let op = *r2.pick(&["=", "!=", "<", ">=", "<="]);
            let tagged = *r2.pick(&["id @tag(name: \"t\")", "score @tag(name: \"t\")", "link @fold @transform(op: \"count\") @tag(name: \"t\")"]);
            let user = match r2.range(0, 2) {
                0 => format!("{e2} @fold {{ id @filter(op: \"{op}\", value: [\"%t\"]) @output(name: \"x\") }}"),
                1 => format!("{e2} @fold @transform(op: \"count\") @filter(op: \"{op}\", value: [\"%t\"]) @output(name: \"x\")"),
                _ => format!("{e2} {{ id @filter(op: \"{op}\", value: [\"%t\"]) @output(name: \"x\") }}"),
            };
            let text = format!("query {{ {root} {{ id @output(name: \"r\") {e1} @optional {{ {tagged} }} {user} }} }}");
            let indexed = match trustfall_core::frontend::parse(&schema, &text) {
                Ok(ix) => ix,
                Err(e) => {
                    out.oracle_fail("optional-tag template was rejected by the frontend", json!({"query": text}), json!({"error": format!("{e:?}")}));
                    continue;
                }
            };
            out.count("family:tag-from-optional-scope");
            EngineCase {
                dataset: world::gen_dataset(&mut r2, 9),
                query_text: text,
                indexed,
                args: std::sync::Arc::new(Default::default()),
                features: Default::default(),
                var_hints: Default::default(),
            }
        };
        let direct = run_impl(&c);
        let direct_s = show_outcome(&direct);
        for f in &c.features {
            out.count(&format!("feat:{f}"));
        }
        out.count(match &direct {
            Outcome::Rows(r) if r.is_empty() => "outcome:no-rows",
            Outcome::Rows(_) => "outcome:rows",
            Outcome::ArgError(_) => "outcome:arg-error",
            Outcome::Panic(_) => "outcome:panic",
        });
        if !matches!(direct, Outcome::Rows(_)) {
            // argument errors never reach an adapter; panics of the plain run are C09's subject
            continue;
        }
        // number of resolver calls of the unbuffered run
        let (o0, calls, items) = run_batched(&c, &Schedule::default());
        out.count(&format!("size:{}", size_bucket(items)));
        if show_outcome(&o0) != direct_s {
            out.oracle_fail("pass-through BatchingAdapter differs from GraphAdapter", case_input_json(&c), json!({"direct": direct_s, "wrapped": outcome_detail(&o0)}));
        }
        max_calls = max_calls.max(calls);
        out.count(&format!("calls:{}", if calls >= 12 { "12+".to_string() } else { calls.to_string() }));
        let mut srng = rng.fork();
        let budget_here = if items > 20000 { 1 } else { budget };
        for s in schedules_for(&mut srng, calls, budget_here, Mode { eager: true, polite: None }) {
            let (o, _, _) = run_batched(&c, &s);
            runs += 1;
            let os = show_outcome(&o);
            out.count(&format!("sched:{}", s.name.split('-').next().unwrap_or("?")));
            if os != direct_s {
                let what = if matches!(o, Outcome::Panic(_)) {
                    "engine panicked under a batching / pre-fetching schedule"
                } else {
                    "row sequence depends on the batching / pre-fetching schedule"
                };
                let mut input = case_input_json(&c);
                input["schedule"] = s.to_json();
                out.oracle_fail(what, input, json!({"unbuffered": direct_s, "buffered": outcome_detail(&o)}));
                break;
            }
        }
    }
    out.count_n("runs:buffered", runs);
    out.count_n("gen:attempts", stats.generated);
    out.count_n("gen:frontend-rejected", stats.frontend_rejected);
    out.extra.insert("max_resolver_calls".into(), json!(max_calls));
    let tie_n = if oracle_only { 0 } else { (n / 2).clamp(60, 600) };
    let mut trng = Rng::new(seed ^ 0xC02);
    pull_tie(&mut trng, tie_n, out);
}

// ------------------------------------------------------------------ C15: the Interact.v mirror

#[derive(Clone, Debug)]
enum Expr {
    Const(i128),
    Var(usize),
    Add(Box<Expr>, Box<Expr>),
    Mul(Box<Expr>, Box<Expr>),
}

fn eval(env: &[i128], e: &Expr) -> i128 {
    match e {
        Expr::Const(z) => *z,
        Expr::Var(i) => env.get(*i).copied().unwrap_or(0),
        Expr::Add(a, b) => eval(env, a) + eval(env, b),
        Expr::Mul(a, b) => eval(env, a) * eval(env, b),
    }
}

#[derive(Clone, Debug)]
enum SProg {
    Ret,
    Yield(Expr, Box<SProg>),
    Ask(Expr, Box<SProg>),
    IfPos(Expr, Box<SProg>, Box<SProg>),
}

#[derive(Clone, Debug, PartialEq)]
enum Ev {
    Ask(i128, i128),
    Row(i128),
}

#[derive(Clone, Debug, PartialEq)]
enum Fail {
    Mismatch(usize),
    Ended(usize),
    Leftover(usize),
}

/// what the program talks to: the data source, a tap around it, or a trace reader
trait Peer {
    fn ask(&mut self, q: i128) -> Result<i128, Fail>;
    fn row(&mut self, r: i128) -> Result<(), Fail>;
}

struct Source {
    state: i128,
    rows: Vec<i128>,
}
impl Peer for Source {
    fn ask(&mut self, q: i128) -> Result<i128, Fail> {
        let a = (self.state * 31 + q * 7 + 3).rem_euclid(11) - 3;
        self.state = self.state + q + 1;
        Ok(a)
    }
    fn row(&mut self, r: i128) -> Result<(), Fail> {
        self.rows.push(r);
        Ok(())
    }
}

/// AdapterTap + tap_results in miniature
struct Tap<'a> {
    inner: &'a mut Source,
    log: Vec<Ev>,
}
impl Peer for Tap<'_> {
    fn ask(&mut self, q: i128) -> Result<i128, Fail> {
        let a = self.inner.ask(q)?;
        self.log.push(Ev::Ask(q, a));
        Ok(a)
    }
    fn row(&mut self, r: i128) -> Result<(), Fail> {
        self.log.push(Ev::Row(r));
        self.inner.row(r)
    }
}

/// TraceReaderAdapter + assert_interpreted_results in miniature
struct Reader {
    log: Vec<Ev>,
    pos: usize,
    rows: Vec<i128>,
}
impl Peer for Reader {
    fn ask(&mut self, q: i128) -> Result<i128, Fail> {
        match self.log.get(self.pos) {
            None => Err(Fail::Ended(self.pos)),
            Some(Ev::Ask(q2, a)) if *q2 == q => {
                self.pos += 1;
                Ok(*a)
            }
            Some(_) => Err(Fail::Mismatch(self.pos)),
        }
    }
    fn row(&mut self, r: i128) -> Result<(), Fail> {
        match self.log.get(self.pos) {
            None => Err(Fail::Ended(self.pos)),
            Some(Ev::Row(r2)) if *r2 == r => {
                self.pos += 1;
                self.rows.push(r);
                Ok(())
            }
            Some(_) => Err(Fail::Mismatch(self.pos)),
        }
    }
}

fn exec(p: &SProg, env: &mut Vec<i128>, peer: &mut dyn Peer) -> Result<(), Fail> {
    match p {
        SProg::Ret => Ok(()),
        SProg::Yield(e, k) => {
            peer.row(eval(env, e))?;
            exec(k, env, peer)
        }
        SProg::Ask(e, k) => {
            let a = peer.ask(eval(env, e))?;
            env.insert(0, a);
            let r = exec(k, env, peer);
            env.remove(0);
            r
        }
        SProg::IfPos(e, a, b) => {
            if eval(env, e) > 0 { exec(a, env, peer) } else { exec(b, env, peer) }
        }
    }
}

#[derive(Clone, Debug)]
enum Tamper {
    None,
    DropLast,
    Extra(Ev),
    Set(usize, Ev),
}

fn gen_expr(rng: &mut Rng, depth: usize, vars: usize) -> Expr {
    if depth == 0 || rng.chance(1, 2) {
        if vars > 0 && rng.chance(2, 3) {
            Expr::Var(rng.below(vars + 1)) // occasionally out of range (= 0)
        } else {
            Expr::Const(rng.range(-3, 4) as i128)
        }
    } else if rng.chance(2, 3) {
        Expr::Add(Box::new(gen_expr(rng, depth - 1, vars)), Box::new(gen_expr(rng, depth - 1, vars)))
    } else {
        Expr::Mul(Box::new(gen_expr(rng, depth - 1, vars)), Box::new(gen_expr(rng, depth - 1, vars)))
    }
}

fn gen_sprog(rng: &mut Rng, size: usize, vars: usize) -> SProg {
    if size == 0 {
        return SProg::Ret;
    }
    match rng.below(10) {
        0 => SProg::Ret,
        1..=3 => SProg::Yield(gen_expr(rng, 2, vars), Box::new(gen_sprog(rng, size - 1, vars))),
        4..=7 => SProg::Ask(gen_expr(rng, 2, vars), Box::new(gen_sprog(rng, size - 1, vars + 1))),
        _ => SProg::IfPos(gen_expr(rng, 2, vars), Box::new(gen_sprog(rng, size / 2, vars)), Box::new(gen_sprog(rng, size / 2, vars))),
    }
}

fn expr_coq(e: &Expr) -> String {
    match e {
        Expr::Const(z) => format!("(EConst {})", czs(*z)),
        Expr::Var(i) => format!("(EVar {})", cnat(*i)),
        Expr::Add(a, b) => format!("(EAdd {} {})", expr_coq(a), expr_coq(b)),
        Expr::Mul(a, b) => format!("(EMul {} {})", expr_coq(a), expr_coq(b)),
    }
}

fn sprog_coq(p: &SProg) -> String {
    match p {
        SProg::Ret => "PRet".into(),
        SProg::Yield(e, k) => format!("(PYield {} {})", expr_coq(e), sprog_coq(k)),
        SProg::Ask(e, k) => format!("(PAsk {} {})", expr_coq(e), sprog_coq(k)),
        SProg::IfPos(e, a, b) => format!("(PIfPos {} {} {})", expr_coq(e), sprog_coq(a), sprog_coq(b)),
    }
}

fn ev_coq(e: &Ev) -> String {
    match e {
        Ev::Ask(q, a) => format!("(EvAsk {} {})", czs(*q), czs(*a)),
        Ev::Row(r) => format!("(EvRow {})", czs(*r)),
    }
}

fn tamper_coq(t: &Tamper) -> String {
    match t {
        Tamper::None => "TNone".into(),
        Tamper::DropLast => "TDropLast".into(),
        Tamper::Extra(e) => format!("(TExtra {})", ev_coq(e)),
        Tamper::Set(i, e) => format!("(TSet {} {})", cnat(*i), ev_coq(e)),
    }
}

fn show_ev(e: &Ev) -> String {
    match e {
        Ev::Ask(q, a) => format!("?{q}={a}"),
        Ev::Row(r) => format!("!{r}"),
    }
}

fn join(v: &[i128]) -> String {
    v.iter().map(|x| x.to_string()).collect::<Vec<_>>().join(",")
}

fn interact_tie(rng: &mut Rng, count: usize, out: &mut Out) {
    for i in 0..count {
        let size = 5 + rng.below(10);
        let p = gen_sprog(rng, size, 0);
        let seed = rng.range(0, 20) as i128;
        // direct run
        let mut src = Source { state: seed, rows: vec![] };
        exec(&p, &mut vec![], &mut src).expect("the data source never fails");
        let run_rows = src.rows.clone();
        // tapped run
        let mut src2 = Source { state: seed, rows: vec![] };
        let mut tap = Tap { inner: &mut src2, log: vec![] };
        exec(&p, &mut vec![], &mut tap).expect("the data source never fails");
        let log = tap.log.clone();
        let tap_rows = src2.rows.clone();
        // tampering
        let t = match i % 5 {
            0 | 1 => Tamper::None,
            2 => Tamper::DropLast,
            3 => Tamper::Extra(if rng.chance(1, 2) { Ev::Row(rng.range(-2, 2) as i128) } else { Ev::Ask(rng.range(-2, 2) as i128, rng.range(-3, 7) as i128) }),
            _ => {
                let pos = if log.is_empty() { 0 } else { rng.below(log.len()) };
                let e = match log.get(pos) {
                    Some(Ev::Ask(q, a)) => match rng.below(3) {
                        0 => Ev::Ask(*q + 1, *a),
                        1 => Ev::Ask(*q, (*a + 4).rem_euclid(11) - 3),
                        _ => Ev::Row(*a),
                    },
                    Some(Ev::Row(r)) => if rng.chance(1, 2) { Ev::Row(*r + 1) } else { Ev::Ask(*r, 0) },
                    None => Ev::Row(0),
                };
                Tamper::Set(pos, e)
            }
        };
        let mut tlog = log.clone();
        match &t {
            Tamper::None => {}
            Tamper::DropLast => {
                tlog.pop();
            }
            Tamper::Extra(e) => tlog.push(e.clone()),
            Tamper::Set(i, e) => {
                if *i < tlog.len() {
                    tlog[*i] = e.clone();
                }
            }
        }
        let mut rd = Reader { log: tlog.clone(), pos: 0, rows: vec![] };
        let r = exec(&p, &mut vec![], &mut rd).and_then(|()| if rd.pos < rd.log.len() { Err(Fail::Leftover(rd.pos)) } else { Ok(()) });
        let replay_s = match &r {
            Ok(()) => format!("OK:{}", join(&rd.rows)),
            Err(Fail::Mismatch(p)) => format!("MISMATCH@{p}"),
            Err(Fail::Ended(p)) => format!("ENDED@{p}"),
            Err(Fail::Leftover(p)) => format!("LEFTOVER@{p}"),
        };
        // the property on the mirror itself
        if tap_rows != run_rows {
            out.oracle_fail("mirror: tapped rows differ", json!({"prog": format!("{p:?}"), "seed": seed.to_string()}), json!({}));
        }
        if matches!(t, Tamper::None) && replay_s != format!("OK:{}", join(&run_rows)) {
            out.oracle_fail("mirror: untampered replay differs", json!({"prog": format!("{p:?}"), "seed": seed.to_string()}), json!({"replay": replay_s}));
        }
        out.count(&format!("tie:{}", replay_s.split(|c| c == ':' || c == '@').next().unwrap_or("?")));
        let imp = format!(
            "RUN:{}|TAP:{}|LOG:{}|REPLAY:{}",
            join(&run_rows),
            join(&tap_rows),
            log.iter().map(show_ev).collect::<Vec<_>>().join(" "),
            replay_s
        );
        out.add(Case {
            input: json!({"prog": format!("{p:?}"), "seed": seed.to_string(), "tamper": format!("{t:?}")}),
            coq: format!("interact_show {} {} {}", sprog_coq(&p), czs(seed), tamper_coq(&t)),
            imp,
            nontrivial: log.len() >= 3 && log.iter().any(|e| matches!(e, Ev::Ask(..))) && log.iter().any(|e| matches!(e, Ev::Row(..))),
            key: format!("{p:?}/{seed}/{t:?}"),
        });
    }
}

// ------------------------------------------------------------------ C15 oracle

type Row = BTreeMap<Arc<str>, FieldValue>;

/// runs whose adapter iterators yield more elements than this are traced with the plain adapter only
const TRACE_ITEMS_LIMIT: u64 = 3000;
/// ... and beyond this not at all (one trace would take gigabytes)
const TRACE_SKIP_LIMIT: u64 = 30000;

enum Traced {
    Done(Vec<Row>, Trace<u64>),
    ArgError,
    Panic(String),
}

fn panic_text(e: Box<dyn std::any::Any + Send>) -> String {
    if let Some(s) = e.downcast_ref::<&str>() {
        s.to_string()
    } else if let Some(s) = e.downcast_ref::<String>() {
        s.clone()
    } else {
        "<non-string panic>".to_string()
    }
}

/// Run through the real AdapterTap + tap_results.
fn run_traced<A>(adapter: A, c: &EngineCase) -> Traced
where
    A: Adapter<'static, Vertex = u64> + 'static,
{
    let arguments: BTreeMap<String, FieldValue> = c.args.iter().map(|(k, v)| (k.to_string(), v.clone())).collect();
    let trace = Rc::new(RefCell::new(Trace::new(c.indexed.ir_query.clone(), arguments)));
    let trace2 = trace.clone();
    let indexed = c.indexed.clone();
    let args = c.args.clone();
    let r = catch_unwind(AssertUnwindSafe(move || {
        #[allow(clippy::arc_with_non_send_sync)]
        let tap = Arc::new(AdapterTap::new(adapter, trace2));
        match interpret_ir(tap.clone(), indexed, args) {
            Ok(it) => Some(tap_results(tap.clone(), it).collect::<Vec<Row>>()),
            Err(_) => None,
        }
    }));
    match r {
        Ok(Some(rows)) => {
            let t = trace.borrow().clone();
            Traced::Done(rows, t)
        }
        Ok(None) => Traced::ArgError,
        Err(e) => Traced::Panic(panic_text(e)),
    }
}

fn replay_checked(trace: &Trace<u64>, rows: &[Row]) -> Result<(), String> {
    catch_unwind(AssertUnwindSafe(|| assert_interpreted_results(trace, rows, true))).map_err(panic_text)
}

fn short(s: &str) -> String {
    s.chars().take(400).collect()
}

fn trace_shape(t: &Trace<u64>) -> (usize, usize, usize) {
    let mut calls = 0;
    let mut advances = 0;
    let mut rows = 0;
    for op in t.ops.values() {
        match &op.content {
            TraceOpContent::Call(_) => calls += 1,
            TraceOpContent::AdvanceInputIterator => advances += 1,
            TraceOpContent::ProduceQueryResult(_) => rows += 1,
            _ => {}
        }
    }
    (calls, advances, rows)
}

/// all checks on one (adapter, case): tapped rows == direct rows; ron / json round trip; replay
fn check_traced(label: &str, class: Option<&str>, traced: Traced, direct_rows: &[Row], direct_s: &str, c: &EngineCase, sched: Option<&Schedule>, out: &mut Out) {
    let mut input = case_input_json(c);
    input["adapter"] = json!(label);
    if let Some(s) = sched {
        input["schedule"] = s.to_json();
    }
    let (rows, trace) = match traced {
        Traced::Done(r, t) => (r, t),
        Traced::ArgError => {
            out.oracle_fail("tapped run rejected arguments the direct run accepted", input, json!({}));
            return;
        }
        Traced::Panic(m) => {
            out.oracle_fail("tapped run panicked", input, json!({"panic": short(&m)}));
            return;
        }
    };
    let tapped_s = show_outcome(&Outcome::Rows(rows.clone()));
    if tapped_s != direct_s {
        out.oracle_fail("rows through AdapterTap differ from the direct run", input, json!({"direct": direct_s, "tapped": tapped_s}));
        return;
    }
    let (calls, advances, nrows) = trace_shape(&trace);
    out.count_n("trace:ops", trace.ops.len() as u64);
    out.count_n("trace:calls", calls as u64);
    out.count_n("trace:advance-input", advances as u64);
    if nrows != direct_rows.len() {
        out.oracle_fail("trace does not contain one ProduceQueryResult per row", input, json!({"rows": direct_rows.len(), "in_trace": nrows}));
        return;
    }
    let fail = |out: &mut Out, what: &str, detail: Value| out.oracle_fail(what, input.clone(), detail);
    // (1) replay of the in-memory trace
    if let Err(m) = replay_checked(&trace, direct_rows) {
        out.count(&format!("{label}:replay-failed"));
        // the two known classes are recognised by the adapter family AND the way replay.rs fails
        let expected: &[&str] = match class {
            Some("K-trace-in-call-prefetch") => &["assertion `left == right` failed\n  left: None\n right: Some(Opid("],
            Some("K-trace-repoll-after-exhaustion") => &["assertion failed: !self.exhausted", "internal error: entered unreachable code"],
            _ => &[],
        };
        let detail = json!({"format": "memory", "panic": short(&m)});
        match class {
            Some(k) if expected.iter().any(|p| m.starts_with(p)) => out.oracle_fail_class(k, "replaying the recorded trace panicked", input.clone(), detail),
            _ => out.oracle_fail("replaying the recorded trace panicked", input.clone(), detail),
        }
        return;
    }
    // (2) ron round trip
    match ron::to_string(&trace) {
        Err(e) => fail(out, "trace cannot be serialised with ron", json!({"error": e.to_string()})),
        Ok(text) => match ron::from_str::<Trace<u64>>(&text) {
            Err(e) => fail(out, "ron-serialised trace cannot be deserialised", json!({"error": e.to_string(), "text": short(&text)})),
            Ok(t2) => {
                if t2 != trace {
                    out.count("ron:roundtrip-not-identical");
                }
                if let Err(m) = replay_checked(&t2, direct_rows) {
                    fail(out, "replaying the ron round-tripped trace panicked", json!({"format": "ron", "identical": t2 == trace, "panic": short(&m)}));
                } else {
                    out.count("replay-ok:ron");
                }
            }
        },
    }
    // (3) serde_json round trip
    match serde_json::to_string(&trace) {
        Err(e) => {
            // serde_json cannot represent maps with non-string keys: DataContext.folded_values is keyed
            // by (Eid, name) and imported_tags by FieldRef.  That is a limitation of the format, not
            // a disagreement between run and replay; it is counted and reported, not failed.
            let msg = e.to_string();
            if msg.contains("key must be a string") {
                out.count("json:unserialisable(non-string map key)");
            } else {
                fail(out, "trace cannot be serialised with serde_json", json!({"error": msg}));
            }
        }
        Ok(text) => match serde_json::from_str::<Trace<u64>>(&text) {
            Err(e) => fail(out, "json-serialised trace cannot be deserialised", json!({"error": e.to_string(), "text": short(&text)})),
            Ok(t2) => {
                if t2 != trace {
                    out.count("json:roundtrip-not-identical");
                }
                if let Err(m) = replay_checked(&t2, direct_rows) {
                    fail(out, "replaying the json round-tripped trace panicked", json!({"format": "json", "identical": t2 == trace, "panic": short(&m)}));
                } else {
                    out.count("replay-ok:json");
                }
            }
        },
    }
}

fn run_c15(seed: u64, n: usize, oracle_only: bool, budget: usize, out: &mut Out) {
    let mut rng = Rng::new(seed);
    let schema = world::schema();
    let mut stats = GenStats { generated: 0, frontend_rejected: 0, frontend_panicked: 0, reject_kinds: Default::default() };
    for _ in 0..n {
        let c = gen_case(&mut rng, &schema, &mut stats, 0);
        let direct = run_impl(&c);
        let direct_s = show_outcome(&direct);
        for f in &c.features {
            out.count(&format!("feat:{f}"));
        }
        let direct_rows = match &direct {
            Outcome::Rows(r) => {
                out.count(if r.is_empty() { "outcome:no-rows" } else { "outcome:rows" });
                r.clone()
            }
            Outcome::ArgError(_) => {
                out.count("outcome:arg-error");
                continue;
            }
            Outcome::Panic(_) => {
                out.count("outcome:panic");
                continue;
            }
        };
        let (_, calls, items) = run_batched(&c, &Schedule::default());
        out.count(&format!("size:{}", size_bucket(items)));
        // every recorded operation stores a copy of its whole context (nested fold contents
        // included), so traces grow quadratically: very large runs are traced once, not ~90 times
        let huge = items > TRACE_ITEMS_LIMIT;
        if huge {
            out.count("batching-families-skipped(size)");
        }
        if items > TRACE_SKIP_LIMIT {
            out.count("skipped(too large to trace)");
            continue;
        }
        // plain adapter
        let traced = run_traced(GraphAdapter::new(c.dataset.clone()), &c);
        check_traced("plain", None, traced, &direct_rows, &direct_s, &c, None, out);
        // batching adapters under the tap: first the ones that only read ahead at pull time, then the
        // ones that read ahead inside the resolver call
        let mut srng = rng.fork();
        // (a) read ahead at pull time only and never poll an exhausted input again: must replay;
        // (b) poll exhausted inputs again (like the repository's VariableChunkIterator);
        // (c) read ahead inside the resolver call (like VariableChunkIterator::new).
        let families: [(&str, Mode, Option<&str>); 3] = [
            ("batching-at-pull", Mode { eager: false, polite: Some(true) }, None),
            ("batching-repoll", Mode { eager: false, polite: Some(false) }, Some("K-trace-repoll-after-exhaustion")),
            ("batching-in-call", Mode { eager: true, polite: Some(true) }, Some("K-trace-in-call-prefetch")),
        ];
        for (label, mode, class) in families {
            if huge {
                break;
            }
            for s in schedules_for(&mut srng, calls, budget, mode) {
                let ad = BatchingAdapter::new(GraphAdapter::new(c.dataset.clone()), s.clone());
                let traced = run_traced(ad, &c);
                let before = out.oracle_failures.len();
                check_traced(label, class, traced, &direct_rows, &direct_s, &c, Some(&s), out);
                if out.oracle_failures.len() > before {
                    break;
                }
            }
        }
    }
    out.count_n("gen:attempts", stats.generated);
    out.count_n("gen:frontend-rejected", stats.frontend_rejected);
    let tie_n = if oracle_only { 0 } else { (n / 2).clamp(60, 600) };
    let mut trng = Rng::new(seed ^ 0xC15);
    interact_tie(&mut trng, tie_n, out);
}

// ------------------------------------------------------------------ main

fn main() {
    let argv: Vec<String> = std::env::args().collect();
    if argv.len() < 2 {
        eprintln!("usage: tfh_pull <c02|c15> [--seed S] [--n N] [--out DIR] [--oracle-only] [--scheds K]");
        std::process::exit(2);
    }
    let args = parse_args(&argv[2..]);
    std::panic::set_hook(Box::new(|_| {}));
    let oracle_only = args.rest.iter().any(|x| x == "--oracle-only");
    match argv[1].as_str() {
        "c02" => {
            let budget = flag_value(&args.rest, "--scheds").unwrap_or(8);
            let imports = "From TF Require Import Pull.\nFrom Coq Require Import List ZArith String.\nImport ListNotations.";
            let mut o = Out::new(&args.out, imports, 100);
            run_c02(args.seed, args.n, oracle_only, budget, &mut o);
            o.finish();
        }
        "c15" => {
            let budget = flag_value(&args.rest, "--scheds").unwrap_or(4);
            let imports = "From TF Require Import Interact.\nFrom Coq Require Import List ZArith String.\nImport ListNotations.";
            let mut o = Out::new(&args.out, imports, 100);
            run_c15(args.seed, args.n, oracle_only, budget, &mut o);
            o.finish();
        }
        other => {
            eprintln!("unknown subcommand {other}");
            std::process::exit(2);
        }
    }
}
