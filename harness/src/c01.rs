//! C01 (and the engine tie shared by C09/C13/...): the Exec model vs `interpret_ir` on generated
//! worlds; the Sem specification vs `interpret_ir` as the property's oracle.
use crate::engine::*;
use crate::out::{Case, Out};
use crate::rng::Rng;
use crate::world;

pub fn run(seed: u64, n: usize, out: &mut Out, with_sem: bool, known_defects: u32, panic_oracle: bool) {
    let mut rng = Rng::new(seed);
    let schema = world::schema();
    let mut stats = GenStats { generated: 0, frontend_rejected: 0, frontend_panicked: 0, reject_kinds: Default::default() };
    let mut rows_total = 0u64;
    let mut with_rows = 0u64;
    for i in 0..n {
        let c = gen_case(&mut rng, &schema, &mut stats, known_defects);
        let o = run_impl(&c);
        let imp = show_outcome(&o);
        if let Outcome::Rows(r) = &o {
            rows_total += r.len() as u64;
            if !r.is_empty() {
                with_rows += 1;
            }
        }
        for f in &c.features {
            out.count(&format!("feat:{f}"));
        }
        out.count(match &o {
            Outcome::Rows(r) if r.is_empty() => "outcome:no-rows",
            Outcome::Rows(_) => "outcome:rows",
            Outcome::ArgError(_) => "outcome:arg-error",
            Outcome::Panic(_) => "outcome:panic",
        });
        let nontrivial = matches!(&o, Outcome::Rows(r) if !r.is_empty())
            || c.features.iter().filter(|f| f.starts_with("edge-") || f.starts_with("fold-") || f.starts_with("tag-")).count() >= 2;
        let mut input = case_input_json(&c);
        if let Outcome::Panic(m) = &o {
            input["impl_panic"] = serde_json::Value::String(m.chars().take(160).collect());
        }
        let coq_args = case_coq_args(&c);
        let class = engine_class(&c);
        if panic_oracle {
            if let Outcome::Panic(m) = &o {
                let detail = serde_json::json!({"panic": m.chars().take(300).collect::<String>()});
                match &class {
                    Some(k) => out.oracle_fail_class(k, "executing an accepted query panicked", input.clone(), detail),
                    None => out.oracle_fail("executing an accepted query panicked", input.clone(), detail),
                }
            }
        }
        out.add(Case {
            input: input.clone(),
            coq: format!("run_exec {coq_args}"),
            imp: imp.clone(),
            nontrivial,
            key: format!("{i}:{}", c.query_text),
        });
        if panic_oracle && !c.args.is_empty() {
            // an argument map with one variable missing must be REFUSED; if it is ever accepted, executing it
            // must still not panic
            let mut fewer = (*c.args).clone();
            let drop = fewer.keys().nth(i % fewer.len()).cloned();
            if let Some(k) = drop {
                fewer.remove(&k);
                let c2 = EngineCase { dataset: c.dataset.clone(), query_text: c.query_text.clone(), indexed: c.indexed.clone(), args: std::sync::Arc::new(fewer), features: Default::default(), var_hints: Default::default() };
                match run_impl(&c2) {
                    Outcome::Panic(m) => {
                        let mut inp = input.clone();
                        inp["omitted_argument"] = serde_json::json!(k.to_string());
                        out.oracle_fail("executing a query with an ACCEPTED (incomplete) argument map panicked", inp, serde_json::json!({"panic": m.chars().take(300).collect::<String>()}));
                    }
                    Outcome::ArgError(_) => out.count("incomplete-args:refused"),
                    Outcome::Rows(_) => out.count("incomplete-args:ACCEPTED"),
                }
            }
        }
        if panic_oracle {
            // does this world meet the static conditions of the C09 theorem (panics only in filter operators)?
            out.add_info(Case {
                input: input.clone(),
                coq: format!("run_np {} {}", crate::irprint::query(&c.indexed.ir_query), crate::irprint::args(&c.args)),
                imp: String::new(),
                nontrivial: false,
                key: format!("np{i}"),
            });
        }
        if with_sem {
            // does this world meet the hypotheses of the whole-query refinement theorem (C01.v)?
            out.add_info(Case {
                input: input.clone(),
                coq: format!("run_hyps {} {}", crate::irprint::query(&c.indexed.ir_query), crate::irprint::args(&c.args)),
                imp: String::new(),
                nontrivial: false,
                key: format!("h{i}"),
            });
            out.add_spec(
                Case { input, coq: format!("run_sem {coq_args}"), imp, nontrivial, key: format!("s{i}:{}", c.query_text) },
                class,
            );
        }
    }
    out.count_n("gen:attempts", stats.generated);
    out.count_n("gen:frontend-rejected", stats.frontend_rejected);
    out.count_n("gen:frontend-panicked", stats.frontend_panicked);
    for (k, v) in stats.reject_kinds {
        if let Some(rest) = k.strip_prefix("PANIC|") {
            // the frontend panicked on a generated query text (property C10 owns the known classes)
            let (msg, text) = rest.split_once('|').unwrap_or((rest, ""));
            // (frontend panics are property C10's subject; here they are only counted)
            let _ = (msg, text);
            out.count("frontend-panic-on-generated-query");
            continue;
        }
        out.count_n(&format!("reject:{k}"), v);
    }
    out.count_n("rows:total", rows_total);
    out.count_n("queries-with-rows", with_rows);
}
