//! C06: candidate-value intersection / normalisation / exclusion are exact set operations.
//!
//! Tie: the hooked `CandidateValue::{intersect, normalize, exclude_single_value}`,
//! `Range::{new, intersect}` and the public `Range::{contains, degenerate}` vs the model `Cand.v`
//! on a candidate universe built from a boundary value set (every variant, every bound-kind
//! combination 3x3 x null_included, Multiple with duplicates and nulls).
//!
//! Oracle (implementation only, independent of the model): for EVERY ordered pair of the universe
//! and every probe value, membership in the result equals membership in both operands; normalize
//! keeps membership; exclusion yields a subset that keeps every other value.
use crate::coq::{cbool, cfv, clist};
use crate::out::{Case, Out};
use crate::rng::Rng;
use crate::show::{show_bool, show_fv};
use serde_json::json;
use std::ops::Bound;
use std::panic::{catch_unwind, AssertUnwindSafe};
use std::sync::Arc;
use trustfall_core::interpreter::__verif::hints::candidates as hook;
use trustfall_core::interpreter::{CandidateValue, Range};
use trustfall_core::ir::FieldValue;

type CV = CandidateValue<FieldValue>;
type R = Range<FieldValue>;

// ------------------------------------------------------------------ values

/// Non-null boundary values used as range bounds (12): signed/unsigned integers around 0, the
/// i64::MAX / 2^63 signedness boundary in both kinds, strings, a float.
pub fn bound_values() -> Vec<FieldValue> {
    use FieldValue::*;
    let s = |x: &str| String(Arc::from(x));
    vec![
        Int64(-1),
        Int64(0),
        Int64(1),
        Int64(i64::MAX),
        Uint64(0),
        Uint64(1),
        Uint64(i64::MAX as u64),
        Uint64(1u64 << 63),
        s(""),
        s("a"),
        s("b"),
        Float64(1.5),
    ]
}

/// Probe values: the bound values, null, and a few values strictly between / beyond them.
pub fn probe_values() -> Vec<FieldValue> {
    use FieldValue::*;
    let mut v = vec![Null];
    v.extend(bound_values());
    v.push(Int64(2));
    v.push(Int64(i64::MIN));
    v.push(Uint64(u64::MAX));
    v.push(String(Arc::from("ab")));
    v.push(Boolean(true));
    v
}

// ------------------------------------------------------------------ rendering (mirrors Cand.v)

fn show_bound(b: Bound<&FieldValue>) -> String {
    match b {
        Bound::Included(v) => format!("I({})", show_fv(v)),
        Bound::Excluded(v) => format!("E({})", show_fv(v)),
        Bound::Unbounded => "U".into(),
    }
}

fn show_range(r: &R) -> String {
    format!("R[{},{},{}]", show_bound(r.start_bound()), show_bound(r.end_bound()), show_bool(r.null_included()))
}

pub fn show_cand(c: &CV) -> String {
    match c {
        CandidateValue::Impossible => "Imp".into(),
        CandidateValue::Single(v) => format!("S({})", show_fv(v)),
        CandidateValue::Multiple(l) => {
            let parts: Vec<String> = l.iter().map(show_fv).collect();
            format!("M[{}]", parts.join(","))
        }
        CandidateValue::Range(r) => show_range(r),
        CandidateValue::All => "All".into(),
        _ => "?".into(),
    }
}

// ------------------------------------------------------------------ Gallina literals

fn cbound(b: Bound<&FieldValue>) -> String {
    match b {
        Bound::Included(v) => format!("(Incl {})", cfv(v)),
        Bound::Excluded(v) => format!("(Excl {})", cfv(v)),
        Bound::Unbounded => "Unb".into(),
    }
}

fn crange_parts(s: Bound<&FieldValue>, e: Bound<&FieldValue>, n: bool) -> String {
    format!("(mkRange {} {} {})", cbound(s), cbound(e), cbool(n))
}

fn crange(r: &R) -> String {
    crange_parts(r.start_bound(), r.end_bound(), r.null_included())
}

fn ccand(c: &CV) -> String {
    match c {
        CandidateValue::Impossible => "Impossible".into(),
        CandidateValue::Single(v) => format!("(Single {})", cfv(v)),
        CandidateValue::Multiple(l) => {
            let parts: Vec<String> = l.iter().map(cfv).collect();
            format!("(Multiple {})", clist(&parts))
        }
        CandidateValue::Range(r) => format!("(CRange {})", crange(r)),
        CandidateValue::All => "All".into(),
        _ => panic!("unknown CandidateValue variant"),
    }
}

// ------------------------------------------------------------------ universe

fn bound_options(vals: &[FieldValue]) -> Vec<Bound<FieldValue>> {
    let mut v = vec![Bound::Unbounded];
    for x in vals {
        v.push(Bound::Included(x.clone()));
        v.push(Bound::Excluded(x.clone()));
    }
    v
}

fn all_ranges() -> Vec<R> {
    let opts = bound_options(&bound_values());
    let mut out = vec![];
    for s in &opts {
        for e in &opts {
            for n in [false, true] {
                out.push(hook::range_new(s.clone(), e.clone(), n));
            }
        }
    }
    out
}

fn non_range_candidates(rng: &mut Rng, n_random: usize) -> Vec<CV> {
    use FieldValue::*;
    let probes = probe_values();
    let mut out: Vec<CV> = vec![CandidateValue::Impossible, CandidateValue::All];
    // Single: null + every bound value
    out.push(CandidateValue::Single(Null));
    for v in bound_values() {
        out.push(CandidateValue::Single(v));
    }
    // Multiple: empty, singletons, all ordered pairs (with duplicates) over a 5-subset with null
    // and a mixed-kind equal pair, all triples over {null, I64 1, U64 1}
    out.push(CandidateValue::Multiple(vec![]));
    out.push(CandidateValue::Multiple(vec![Null]));
    for v in bound_values() {
        out.push(CandidateValue::Multiple(vec![v]));
    }
    let five = [Null, Int64(0), Uint64(0), Uint64(1u64 << 63), String(Arc::from("a"))];
    for a in &five {
        for b in &five {
            out.push(CandidateValue::Multiple(vec![a.clone(), b.clone()]));
        }
    }
    let three = [Null, Int64(1), Uint64(1)];
    for a in &three {
        for b in &three {
            for c in &three {
                out.push(CandidateValue::Multiple(vec![a.clone(), b.clone(), c.clone()]));
            }
        }
    }
    out.push(CandidateValue::Multiple(vec![Int64(-1), Int64(0), Int64(1), Int64(i64::MAX), Uint64(1u64 << 63)]));
    out.push(CandidateValue::Multiple(vec![String(Arc::from("b")), String(Arc::from("")), Null, String(Arc::from("a"))]));
    // seeded random Multiples of 0..=3 probe values
    for _ in 0..n_random {
        let k = rng.below(4);
        let l: Vec<FieldValue> = (0..k).map(|_| rng.pick(&probes).clone()).collect();
        out.push(CandidateValue::Multiple(l));
    }
    out
}

fn kind(c: &CV) -> &'static str {
    match c {
        CandidateValue::Impossible => "imp",
        CandidateValue::Single(_) => "single",
        CandidateValue::Multiple(_) => "multiple",
        CandidateValue::Range(_) => "range",
        CandidateValue::All => "all",
        _ => "?",
    }
}

// ------------------------------------------------------------------ implementation wrappers

fn do_intersect(a: &CV, b: &CV) -> Option<CV> {
    catch_unwind(AssertUnwindSafe(|| hook::cv_intersect(a.clone(), b.clone()))).ok()
}
fn do_normalize(a: &CV) -> Option<CV> {
    catch_unwind(AssertUnwindSafe(|| hook::cv_normalize(a.clone()))).ok()
}
fn do_exclude(a: &CV, v: &FieldValue) -> Option<CV> {
    catch_unwind(AssertUnwindSafe(|| hook::cv_exclude(a.clone(), v))).ok()
}
fn show_opt_cand(c: &Option<CV>) -> String {
    match c {
        Some(c) => show_cand(c),
        None => "PANIC".into(),
    }
}

/// Set denotation computed from the public API only (`==`, `Vec::contains`, `Range::contains`).
fn mem(c: &CV, x: &FieldValue) -> bool {
    match c {
        CandidateValue::Impossible => false,
        CandidateValue::Single(v) => x == v,
        CandidateValue::Multiple(l) => l.contains(x),
        CandidateValue::Range(r) => r.contains(x),
        CandidateValue::All => true,
        _ => panic!("unknown CandidateValue variant"),
    }
}

// ------------------------------------------------------------------ cases

fn add_intersect(out: &mut Out, a: &CV, b: &CV) {
    let r = do_intersect(a, b);
    out.count(&format!("intersect:{}x{}", kind(a), kind(b)));
    let trivial = matches!(a, CandidateValue::Impossible | CandidateValue::All)
        || matches!(b, CandidateValue::Impossible | CandidateValue::All);
    out.add(Case {
        input: json!({"op": "intersect", "a": show_cand(a), "b": show_cand(b)}),
        coq: format!("show_res show_cand (f_intersect {} {})", ccand(a), ccand(b)),
        imp: show_opt_cand(&r),
        nontrivial: !trivial,
        key: format!("i|{}|{}", show_cand(a), show_cand(b)),
    });
}

fn add_normalize(out: &mut Out, a: &CV) {
    let r = do_normalize(a);
    out.count(&format!("normalize:{}", kind(a)));
    out.add(Case {
        input: json!({"op": "normalize", "a": show_cand(a)}),
        coq: format!("show_res show_cand (f_normalize {})", ccand(a)),
        imp: show_opt_cand(&r),
        nontrivial: matches!(a, CandidateValue::Range(_) | CandidateValue::Multiple(_)),
        key: format!("n|{}", show_cand(a)),
    });
}

fn add_exclude(out: &mut Out, a: &CV, v: &FieldValue) {
    let r = do_exclude(a, v);
    out.count(&format!("exclude:{}", kind(a)));
    out.add(Case {
        input: json!({"op": "exclude", "a": show_cand(a), "v": show_fv(v)}),
        coq: format!("show_res show_cand (f_exclude {} {})", ccand(a), cfv(v)),
        imp: show_opt_cand(&r),
        nontrivial: !matches!(a, CandidateValue::Impossible),
        key: format!("x|{}|{}", show_cand(a), show_fv(v)),
    });
}

fn add_range_new(out: &mut Out, s: &Bound<FieldValue>, e: &Bound<FieldValue>, n: bool) {
    let r = catch_unwind(AssertUnwindSafe(|| hook::range_new(s.clone(), e.clone(), n))).ok();
    let has_null = |b: &Bound<FieldValue>| matches!(b, Bound::Included(FieldValue::Null) | Bound::Excluded(FieldValue::Null));
    let expect_panic = has_null(s) || has_null(e);
    out.count(if expect_panic { "range_new:null-bound" } else { "range_new:ok" });
    let imp = match &r {
        Some(r) => show_range(r),
        None => "PANIC".into(),
    };
    let input = json!({"op": "range_new", "start": show_bound(s.as_ref()), "end": show_bound(e.as_ref()), "null": n});
    if expect_panic != r.is_none() {
        out.oracle_fail("Range::new must panic exactly when a bound value is null", input.clone(), json!({"got": imp}));
    }
    out.add(Case {
        input,
        coq: format!("show_res show_range (f_range_new {} {} {})", cbound(s.as_ref()), cbound(e.as_ref()), cbool(n)),
        imp,
        nontrivial: true,
        key: format!("rn|{}|{}|{}", show_bound(s.as_ref()), show_bound(e.as_ref()), n),
    });
}

fn add_range_intersect(out: &mut Out, a: &R, b: &R) {
    let r = catch_unwind(AssertUnwindSafe(|| hook::range_intersect(a.clone(), b.clone()))).ok();
    out.count("range_intersect");
    out.add(Case {
        input: json!({"op": "range_intersect", "a": show_range(a), "b": show_range(b)}),
        coq: format!("show_res show_range (f_range_intersect {} {})", crange(a), crange(b)),
        imp: match &r {
            Some(r) => show_range(r),
            None => "PANIC".into(),
        },
        nontrivial: true,
        key: format!("ri|{}|{}", show_range(a), show_range(b)),
    });
}

/// `Range::degenerate` and `Range::contains` over every probe, packed in one case.
fn add_range_queries(out: &mut Out, r: &R, probes: &[FieldValue], probes_coq: &str) {
    let bits: String = probes.iter().map(|x| show_bool(r.contains(x))).collect();
    out.count("range_contains_degenerate");
    out.add(Case {
        input: json!({"op": "degenerate+contains", "r": show_range(r)}),
        coq: format!(
            "show_bool (f_degenerate {r}) ++ \":\" ++ String.concat \"\" (map (fun x => show_bool (f_contains {r} x)) {p})",
            r = crange(r),
            p = probes_coq
        ),
        imp: format!("{}:{}", show_bool(r.degenerate()), bits),
        nontrivial: true,
        key: format!("rq|{}", show_range(r)),
    });
}

// ------------------------------------------------------------------ oracle

fn oracle_intersect(out: &mut Out, a: &CV, b: &CV, probes: &[FieldValue]) {
    match do_intersect(a, b) {
        None => out.oracle_fail(
            "intersect panicked on well-formed candidates",
            json!({"a": show_cand(a), "b": show_cand(b)}),
            json!(null),
        ),
        Some(r) => {
            for x in probes {
                if mem(&r, x) != (mem(a, x) && mem(b, x)) {
                    out.oracle_fail(
                        "intersection is not the set of values contained in both",
                        json!({"a": show_cand(a), "b": show_cand(b)}),
                        json!({"result": show_cand(&r), "probe": show_fv(x),
                               "in_result": mem(&r, x), "in_a": mem(a, x), "in_b": mem(b, x)}),
                    );
                    break;
                }
            }
        }
    }
}

fn oracle_normalize(out: &mut Out, a: &CV, probes: &[FieldValue]) {
    match do_normalize(a) {
        None => out.oracle_fail("normalize panicked", json!({"a": show_cand(a)}), json!(null)),
        Some(r) => {
            for x in probes {
                if mem(&r, x) != mem(a, x) {
                    out.oracle_fail(
                        "normalize changed the contained values",
                        json!({"a": show_cand(a)}),
                        json!({"result": show_cand(&r), "probe": show_fv(x)}),
                    );
                    break;
                }
            }
        }
    }
}

fn oracle_exclude(out: &mut Out, a: &CV, v: &FieldValue, probes: &[FieldValue]) {
    match do_exclude(a, v) {
        None => out.oracle_fail("exclude_single_value panicked", json!({"a": show_cand(a), "v": show_fv(v)}), json!(null)),
        Some(r) => {
            for x in probes {
                if mem(&r, x) && !mem(a, x) {
                    out.oracle_fail(
                        "exclusion result is not contained in the original",
                        json!({"a": show_cand(a), "v": show_fv(v)}),
                        json!({"result": show_cand(&r), "probe": show_fv(x)}),
                    );
                    break;
                }
                if mem(a, x) && x != v && !mem(&r, x) {
                    out.oracle_fail(
                        "exclusion dropped a value other than the excluded one",
                        json!({"a": show_cand(a), "v": show_fv(v)}),
                        json!({"result": show_cand(&r), "probe": show_fv(x)}),
                    );
                    break;
                }
            }
        }
    }
}

// ------------------------------------------------------------------ driver

/// `n` = number of sampled intersect pairs involving a Range (half Range x non-Range in either
/// order, half Range x Range); everything else is exhaustive.  If `n` covers a stratum, the whole
/// stratum is enumerated instead of sampled.
pub fn run(seed: u64, n: usize, oracle_only: bool, out: &mut Out) {
    let mut rng = Rng::new(seed);
    let probes = probe_values();
    let probes_coq = clist(&probes.iter().map(cfv).collect::<Vec<_>>());
    let ranges = all_ranges();
    let nonrange = non_range_candidates(&mut rng, if oracle_only { 120 } else { 24 });
    let range_cands: Vec<CV> = ranges.iter().map(|r| CandidateValue::Range(r.clone())).collect();
    let mut universe: Vec<CV> = nonrange.clone();
    universe.extend(range_cands.iter().cloned());

    out.count_n("universe", universe.len() as u64);
    out.count_n("universe_ranges", ranges.len() as u64);
    out.count_n("probe_values", probes.len() as u64);

    // ---------------- direct oracle on the implementation: exhaustive ----------------
    let mut checks = 0u64;
    for a in &universe {
        oracle_normalize(out, a, &probes);
        for v in &probes {
            oracle_exclude(out, a, v, &probes);
            checks += probes.len() as u64;
        }
        for b in &universe {
            oracle_intersect(out, a, b, &probes);
            checks += probes.len() as u64;
        }
        if out.oracle_failures.len() > 200 {
            break;
        }
    }
    out.count_n("oracle_membership_checks", checks);
    out.count_n("oracle_pairs", (universe.len() * universe.len()) as u64);
    if oracle_only {
        return;
    }

    // ---------------- tie ----------------
    // Range::new on every bound-kind combination, null bound values included (must panic)
    {
        let mut vals = vec![FieldValue::Null];
        vals.extend(bound_values());
        let opts = bound_options(&vals);
        let mut i = 0usize;
        for s in &opts {
            for e in &opts {
                add_range_new(out, s, e, i % 2 == 0);
                i += 1;
            }
        }
    }
    // Range::degenerate / Range::contains on every range
    for r in &ranges {
        add_range_queries(out, r, &probes, &probes_coq);
    }
    // Range::intersect: every start x start combination and every end x end combination
    {
        let opts = bound_options(&bound_values());
        let mut i = 0usize;
        for s in &opts {
            for os in &opts {
                let e = opts[(i * 7 + 3) % opts.len()].clone();
                let oe = opts[(i * 11 + 5) % opts.len()].clone();
                let a = hook::range_new(s.clone(), e, i % 2 == 0);
                let b = hook::range_new(os.clone(), oe, i % 3 != 0);
                add_range_intersect(out, &a, &b);
                let a = hook::range_new(opts[(i * 5 + 1) % opts.len()].clone(), s.clone(), i % 3 == 0);
                let b = hook::range_new(opts[(i * 13 + 2) % opts.len()].clone(), os.clone(), i % 2 != 0);
                add_range_intersect(out, &a, &b);
                i += 1;
            }
        }
    }
    // normalize: whole universe
    for a in &universe {
        add_normalize(out, a);
    }
    // exclude: non-range candidates x every probe; ranges x {null, values equal to a bound (same
    // and other integer kind), two seeded probes}
    for a in &nonrange {
        for v in &probes {
            add_exclude(out, a, v);
        }
    }
    for r in &ranges {
        let a = CandidateValue::Range(r.clone());
        let mut vs: Vec<FieldValue> = vec![FieldValue::Null];
        for b in [r.start_bound(), r.end_bound()] {
            if let Bound::Included(v) | Bound::Excluded(v) = b {
                vs.push(v.clone());
                match v {
                    FieldValue::Int64(i) if *i >= 0 => vs.push(FieldValue::Uint64(*i as u64)),
                    FieldValue::Uint64(u) if *u <= i64::MAX as u64 => vs.push(FieldValue::Int64(*u as i64)),
                    _ => {}
                }
            }
        }
        vs.push(rng.pick(&probes).clone());
        vs.push(rng.pick(&probes).clone());
        let mut seen: Vec<String> = vec![];
        for v in &vs {
            let k = show_fv(v);
            if !seen.contains(&k) {
                seen.push(k);
                add_exclude(out, &a, v);
            }
        }
    }
    // intersect: all ordered pairs of non-range candidates
    for a in &nonrange {
        for b in &nonrange {
            add_intersect(out, a, b);
        }
    }
    // intersect: Range x non-Range (both orders) and Range x Range, sampled from the seed
    let mixed_total = 2 * range_cands.len() * nonrange.len();
    let rr_total = range_cands.len() * range_cands.len();
    let mixed_n = n / 2;
    let rr_n = n - mixed_n;
    if mixed_n >= mixed_total {
        for r in &range_cands {
            for c in &nonrange {
                add_intersect(out, r, c);
                add_intersect(out, c, r);
            }
        }
    } else {
        for _ in 0..mixed_n {
            let r = rng.pick(&range_cands);
            let c = rng.pick(&nonrange);
            if rng.chance(1, 2) {
                add_intersect(out, r, c);
            } else {
                add_intersect(out, c, r);
            }
        }
    }
    if rr_n >= rr_total {
        for a in &range_cands {
            for b in &range_cands {
                add_intersect(out, a, b);
            }
        }
    } else {
        for _ in 0..rr_n {
            let a = rng.pick(&range_cands);
            let b = rng.pick(&range_cands);
            add_intersect(out, a, b);
        }
    }
}
