//! C07: filter operators decide exactly their mathematical definition.
//! Tie: every operator function reachable through `op_direct` on all ordered pairs of a boundary
//! value set (+ random values), and all 20 operations through both dispatch tables and the unary
//! path on a smaller cross product, against `Ops.v`.
//! Oracle (independent of the model): results recomputed from first principles (i128 comparison,
//! byte-wise string operations, structural equality) for operand pairs inside the documented
//! domain of each operator; exact complement for negated operations; table wiring.
use crate::c08::{boundary_values, kind, random_value};
use crate::coq::{cfv, cstr};
use crate::out::{Case, Out};
use crate::rng::Rng;
use crate::show::*;
use regex::Regex;
use serde_json::json;
use std::cmp::Ordering;
use std::panic::{catch_unwind, AssertUnwindSafe};
use std::sync::Arc;
use trustfall_core::interpreter::__verif::filtering::{
    dispatch_static, dispatch_tagged, dispatch_unary, op_direct,
};
use trustfall_core::ir::FieldValue;

/// operator functions accepted by `op_direct`, in the order of the model expression below
const DIRECT: [&str; 11] = [
    "equals",
    "less_than",
    "less_than_or_equal",
    "greater_than",
    "greater_than_or_equal",
    "has_substring",
    "has_prefix",
    "has_suffix",
    "one_of",
    "contains",
    "regex_matches_slow_path",
];

/// (operation name for the hook, positive counterpart if negated, operator function if positive),
/// in the order of `all_opk` in Ops.v
const OPS: [(&str, Option<&str>, Option<&str>); 20] = [
    ("is_null", None, None),
    ("is_not_null", Some("is_null"), None),
    ("=", None, Some("equals")),
    ("!=", Some("="), None),
    ("<", None, Some("less_than")),
    ("<=", None, Some("less_than_or_equal")),
    (">", None, Some("greater_than")),
    (">=", None, Some("greater_than_or_equal")),
    ("contains", None, Some("contains")),
    ("not_contains", Some("contains"), None),
    ("one_of", None, Some("one_of")),
    ("not_one_of", Some("one_of"), None),
    ("has_prefix", None, Some("has_prefix")),
    ("not_has_prefix", Some("has_prefix"), None),
    ("has_suffix", None, Some("has_suffix")),
    ("not_has_suffix", Some("has_suffix"), None),
    ("has_substring", None, Some("has_substring")),
    ("not_has_substring", Some("has_substring"), None),
    ("regex", None, Some("regex_matches_slow_path")),
    ("not_regex", Some("regex"), None),
];

fn s(x: &str) -> FieldValue {
    FieldValue::String(Arc::from(x))
}
fn l(x: Vec<FieldValue>) -> FieldValue {
    FieldValue::List(Arc::from(x))
}

fn extra_values() -> Vec<FieldValue> {
    use FieldValue::*;
    vec![
        // strings that are also interesting regex patterns (valid and invalid)
        s("^a"),
        s("a+b"),
        s("("),
        s("[a-"),
        s("a|b"),
        s(".*"),
        s("\\d+"),
        s("^$"),
        s("b$"),
        s("aab"),
        s("hello"),
        s("ell"),
        s("llo"),
        s("7"),
        // lists for one_of / contains / list ordering
        l(vec![s("a"), s("b")]),
        l(vec![s("b")]),
        l(vec![s("")]),
        l(vec![s("ab"), Null]),
        l(vec![Int64(2), Uint64(u64::MAX)]),
        l(vec![Uint64(1 << 63)]),
        l(vec![Int64(-1), Int64(i64::MIN)]),
        l(vec![Float64(1.5), Float64(-0.0)]),
        l(vec![Null, Null]),
        l(vec![l(vec![s("a")])]),
        l(vec![Enum(Arc::from("a"))]),
        l(vec![Int64(1), s("a")]),
        // non-finite floats: outside FieldValue's invariant, tie only
        Float64(f64::NAN),
        Float64(f64::INFINITY),
        Float64(f64::NEG_INFINITY),
    ]
}

fn dispatch_values() -> Vec<FieldValue> {
    use FieldValue::*;
    vec![
        Null,
        Boolean(true),
        Int64(-1),
        Int64(0),
        Int64(i64::MAX),
        Uint64(0),
        Uint64(1 << 63),
        Uint64(u64::MAX),
        Float64(-0.0),
        Float64(1.5),
        s(""),
        s("a"),
        s("ab"),
        s("aab"),
        s("^a"),
        s("a+b"),
        s("("),
        Enum(Arc::from("a")),
        l(vec![]),
        l(vec![Int64(1)]),
        l(vec![Uint64(1), Int64(-1)]),
        l(vec![s("a")]),
        l(vec![s("a"), s("")]),
        l(vec![Null]),
    ]
}

// ---------------------------------------------------------------- rendering helpers

type R = Result<bool, ()>;

fn guard<F: FnOnce() -> bool>(f: F) -> R {
    catch_unwind(AssertUnwindSafe(f)).map_err(|_| ())
}
fn show_r(r: &R) -> &'static str {
    match r {
        Ok(b) => show_bool(*b),
        Err(()) => "PANIC",
    }
}

fn re_result(p: &str, hay: &str) -> Option<bool> {
    Regex::new(p).ok().map(|rx| rx.is_match(hay))
}

/// Gallina literal for the finite regex oracle needed by the pair (l, r): the pattern is `r`,
/// the haystack is `l` (plus the empty haystack, which the model uses to decide compilability).
fn re_table(lv: &FieldValue, rv: &FieldValue) -> String {
    let mut entries: Vec<String> = vec![];
    if let FieldValue::String(p) = rv {
        let mut hays: Vec<&str> = vec![""];
        if let FieldValue::String(h) = lv {
            if !h.is_empty() {
                hays.push(h);
            }
        }
        for h in hays {
            let b = match re_result(p, h) {
                Some(true) => "Some true",
                Some(false) => "Some false",
                None => "None",
            };
            entries.push(format!("({}, {}, {})", cstr(p), cstr(h), b));
        }
    }
    format!("(re_table [{}])", entries.join("; "))
}

// ---------------------------------------------------------------- first-principles oracle

fn wf_val(v: &FieldValue) -> bool {
    match v {
        FieldValue::Float64(f) => f.is_finite(),
        FieldValue::List(items) => items.iter().all(wf_val),
        _ => true,
    }
}

fn int_of(v: &FieldValue) -> Option<i128> {
    match v {
        FieldValue::Int64(i) => Some(*i as i128),
        FieldValue::Uint64(u) => Some(*u as i128),
        _ => None,
    }
}

/// value equality, from first principles
fn o_eq(a: &FieldValue, b: &FieldValue) -> bool {
    use FieldValue::*;
    if let (Some(x), Some(y)) = (int_of(a), int_of(b)) {
        return x == y;
    }
    match (a, b) {
        (Null, Null) => true,
        (Float64(x), Float64(y)) => x == y,
        (String(x), String(y)) => x.as_bytes() == y.as_bytes(),
        (Boolean(x), Boolean(y)) => x == y,
        (Enum(x), Enum(y)) => x.as_bytes() == y.as_bytes(),
        (List(x), List(y)) => x.len() == y.len() && x.iter().zip(y.iter()).all(|(p, q)| o_eq(p, q)),
        _ => false,
    }
}

/// order of two orderable scalars of the same kind
fn o_cmp(a: &FieldValue, b: &FieldValue) -> Option<Ordering> {
    use FieldValue::*;
    if let (Some(x), Some(y)) = (int_of(a), int_of(b)) {
        return Some(x.cmp(&y));
    }
    match (a, b) {
        (Float64(x), Float64(y)) => x.partial_cmp(y),
        (String(x), String(y)) => Some(x.as_bytes().cmp(y.as_bytes())),
        _ => None,
    }
}

fn holds(name: &str, o: Ordering) -> bool {
    match name {
        "less_than" => o == Ordering::Less,
        "less_than_or_equal" => o != Ordering::Greater,
        "greater_than" => o == Ordering::Greater,
        "greater_than_or_equal" => o != Ordering::Less,
        _ => unreachable!(),
    }
}

/// "type" of a value as far as the frontend's orderability check is concerned: list depth and the
/// kind of the leaves; nulls fit anywhere.
#[derive(Clone, Copy, Debug)]
struct Ty {
    min_depth: usize,
    exact: bool,
    kind: Option<u8>,
}

fn unify(a: Ty, b: Ty) -> Option<Ty> {
    let kind = match (a.kind, b.kind) {
        (Some(x), Some(y)) if x != y => return None,
        (Some(x), _) | (_, Some(x)) => Some(x),
        _ => None,
    };
    let (min_depth, exact) = match (a.exact, b.exact) {
        (true, true) => {
            if a.min_depth != b.min_depth {
                return None;
            }
            (a.min_depth, true)
        }
        (true, false) => {
            if b.min_depth > a.min_depth {
                return None;
            }
            (a.min_depth, true)
        }
        (false, true) => {
            if a.min_depth > b.min_depth {
                return None;
            }
            (b.min_depth, true)
        }
        (false, false) => (a.min_depth.max(b.min_depth), false),
    };
    Some(Ty { min_depth, exact, kind })
}

fn ty_of(v: &FieldValue) -> Option<Ty> {
    use FieldValue::*;
    match v {
        Null => Some(Ty { min_depth: 0, exact: false, kind: None }),
        Int64(_) | Uint64(_) => Some(Ty { min_depth: 0, exact: true, kind: Some(1) }),
        Float64(_) => Some(Ty { min_depth: 0, exact: true, kind: Some(3) }),
        String(_) => Some(Ty { min_depth: 0, exact: true, kind: Some(4) }),
        List(items) => {
            let mut t = Ty { min_depth: 0, exact: false, kind: None };
            for it in items.iter() {
                t = unify(t, ty_of(it)?)?;
            }
            Some(Ty { min_depth: t.min_depth + 1, exact: t.exact, kind: t.kind })
        }
        _ => None,
    }
}

fn has_null_inside(v: &FieldValue) -> bool {
    match v {
        FieldValue::Null => true,
        FieldValue::List(items) => items.iter().any(has_null_inside),
        _ => false,
    }
}

fn o_lex(a: &FieldValue, b: &FieldValue) -> Option<Ordering> {
    match (a, b) {
        (FieldValue::List(x), FieldValue::List(y)) => {
            for (p, q) in x.iter().zip(y.iter()) {
                match o_lex(p, q)? {
                    Ordering::Equal => {}
                    o => return Some(o),
                }
            }
            Some(x.len().cmp(&y.len()))
        }
        _ => o_cmp(a, b),
    }
}

fn is_list(v: &FieldValue) -> bool {
    matches!(v, FieldValue::List(_))
}
fn is_null(v: &FieldValue) -> bool {
    matches!(v, FieldValue::Null)
}
fn str_of(v: &FieldValue) -> Option<&str> {
    match v {
        FieldValue::String(x) => Some(x),
        _ => None,
    }
}
fn str_or_null(v: &FieldValue) -> bool {
    matches!(v, FieldValue::Null | FieldValue::String(_))
}

fn bytes_find(h: &[u8], n: &[u8]) -> bool {
    if n.is_empty() {
        return true;
    }
    if n.len() > h.len() {
        return false;
    }
    (0..=h.len() - n.len()).any(|i| &h[i..i + n.len()] == n)
}

enum Expect {
    /// inside the documented domain: the operator must return this
    Is(bool),
    /// inside what the frontend accepts, documented (lexicographic list order) but known broken
    ListOrdering(Option<bool>),
    /// outside the domain: tie only
    Outside,
}

fn expected(name: &str, a: &FieldValue, b: &FieldValue) -> Expect {
    if !wf_val(a) || !wf_val(b) {
        return Expect::Outside;
    }
    match name {
        "equals" => Expect::Is(o_eq(a, b)),
        "less_than" | "less_than_or_equal" | "greater_than" | "greater_than_or_equal" => {
            let (Some(ta), Some(tb)) = (ty_of(a), ty_of(b)) else { return Expect::Outside };
            if unify(ta, tb).is_none() {
                return Expect::Outside;
            }
            if is_null(a) || is_null(b) {
                return Expect::Is(false);
            }
            if is_list(a) && is_list(b) {
                let e = if has_null_inside(a) || has_null_inside(b) { None } else { o_lex(a, b).map(|o| holds(name, o)) };
                return Expect::ListOrdering(e);
            }
            match o_cmp(a, b) {
                Some(o) => Expect::Is(holds(name, o)),
                None => Expect::Outside,
            }
        }
        "has_substring" | "has_prefix" | "has_suffix" => {
            if !(str_or_null(a) && str_or_null(b)) {
                return Expect::Outside;
            }
            match (str_of(a), str_of(b)) {
                (Some(h), Some(n)) => {
                    let (h, n) = (h.as_bytes(), n.as_bytes());
                    Expect::Is(match name {
                        "has_substring" => bytes_find(h, n),
                        "has_prefix" => h.len() >= n.len() && &h[..n.len()] == n,
                        _ => h.len() >= n.len() && &h[h.len() - n.len()..] == n,
                    })
                }
                _ => Expect::Is(false),
            }
        }
        "one_of" | "contains" => {
            let (x, coll) = if name == "one_of" { (a, b) } else { (b, a) };
            match coll {
                FieldValue::Null => Expect::Is(false),
                FieldValue::List(items) => Expect::Is(items.iter().any(|y| o_eq(x, y))),
                _ => Expect::Outside,
            }
        }
        "regex_matches_slow_path" => {
            if !(str_or_null(a) && str_or_null(b)) {
                return Expect::Outside;
            }
            match (str_of(a), str_of(b)) {
                (Some(h), Some(p)) => {
                    if !p.is_empty() && p.bytes().all(|c| c.is_ascii_alphanumeric()) {
                        // a literal pattern matches exactly when it occurs in the haystack
                        Expect::Is(bytes_find(h.as_bytes(), p.as_bytes()))
                    } else {
                        Expect::Is(re_result(p, h).unwrap_or(false))
                    }
                }
                _ => Expect::Is(false),
            }
        }
        _ => Expect::Outside,
    }
}

fn judge(out: &mut Out, name: &str, a: &FieldValue, b: &FieldValue, got: &R) -> bool {
    let input = json!({"fn": name, "l": show_fv(a), "r": show_fv(b)});
    match expected(name, a, b) {
        Expect::Outside => false,
        Expect::Is(e) => {
            out.count(&format!("oracle:{name}"));
            if *got != Ok(e) {
                out.oracle_fail(
                    "operator result differs from its definition",
                    input,
                    json!({"expected": show_bool(e), "got": show_r(got)}),
                );
            }
            true
        }
        Expect::ListOrdering(e) => {
            out.count("oracle:list-ordering");
            match (got, e) {
                (Err(()), _) => out.oracle_fail_class(
                    "K-list-ordering",
                    "ordering operator panics on list operands the frontend accepts",
                    input,
                    json!({"expected": e.map(show_bool), "got": "PANIC"}),
                ),
                (Ok(g), Some(e)) if *g != e => out.oracle_fail(
                    "list ordering is not lexicographic",
                    input,
                    json!({"expected": show_bool(e), "got": show_bool(*g)}),
                ),
                _ => {}
            }
            true
        }
    }
}

// ---------------------------------------------------------------- the run

pub fn run(seed: u64, n: usize, oracle_only: bool, out: &mut Out) {
    let mut rng = Rng::new(seed);
    let mut vals = boundary_values();
    vals.extend(extra_values());
    for _ in 0..n {
        vals.push(random_value(&mut rng, 2));
    }
    out.count_n("values", vals.len() as u64);

    // ---- 1. every operator function on every ordered pair
    for a in &vals {
        for b in &vals {
            let results: Vec<R> = DIRECT.iter().map(|name| guard(|| op_direct(name, a, b))).collect();
            let mut in_domain = false;
            for (name, got) in DIRECT.iter().zip(results.iter()) {
                let inside = judge(out, name, a, b, got);
                if inside && *name != "equals" {
                    in_domain = true;
                }
            }
            if oracle_only {
                continue;
            }
            out.count(&format!("pair:{}x{}", kind(a), kind(b)));
            let imp: Vec<&str> = results.iter().map(show_r).collect();
            let coq = format!(
                "let l := {a} in let r := {b} in let re := {t} in \
                 String.concat \"|\" (map (show_res show_bool) [equals l r; less_than l r; \
                 less_than_or_equal l r; greater_than l r; greater_than_or_equal l r; has_substring l r; \
                 has_prefix l r; has_suffix l r; one_of l r; contains l r; regex_matches_slow_path re l r])",
                a = cfv(a),
                b = cfv(b),
                t = re_table(a, b)
            );
            out.add(Case {
                input: json!({"what": "direct", "l": show_fv(a), "r": show_fv(b)}),
                coq,
                imp: imp.join("|"),
                nontrivial: in_domain,
                key: format!("d|{}|{}", show_fv(a), show_fv(b)),
            });
        }
    }

    // ---- 2. all 20 operations through the dispatch tables and the unary path
    let mut dvals = dispatch_values();
    for _ in 0..(n / 4) {
        dvals.push(random_value(&mut rng, 1));
    }
    out.count_n("dispatch_values", dvals.len() as u64);
    for a in &dvals {
        // unary path and tags from a missing @optional
        let mut imp: Vec<String> = vec![];
        for (op, _, _) in OPS.iter() {
            for active in [true, false] {
                let u = catch_unwind(AssertUnwindSafe(|| dispatch_unary(op, a.clone(), active)));
                imp.push(match &u {
                    Ok(Some(b)) => format!("S({})", show_bool(*b)),
                    Ok(None) => "N".to_string(),
                    Err(_) => "PANIC".to_string(),
                });
                let expect_u = match *op {
                    "is_null" => Some(!active || is_null(a)),
                    "is_not_null" => Some(!active || !is_null(a)),
                    _ => None,
                };
                match &u {
                    Ok(x) if *x == expect_u => {}
                    _ => out.oracle_fail(
                        "unary filter path differs from its definition",
                        json!({"op": op, "l": show_fv(a), "active": active}),
                        json!({"expected": format!("{expect_u:?}")}),
                    ),
                }
                let t = guard(|| dispatch_tagged(op, a.clone(), None, active));
                imp.push(show_r(&t).to_string());
                let unary = matches!(*op, "is_null" | "is_not_null");
                if !unary && t != Ok(true) {
                    out.oracle_fail(
                        "a tag from a missing @optional must keep the context",
                        json!({"op": op, "l": show_fv(a), "active": active}),
                        json!({"got": show_r(&t)}),
                    );
                }
            }
        }
        out.count_n("oracle:unary+none", 80);
        if !oracle_only {
            let coq = format!(
                "let l := {a} in let re := (re_table []) in String.concat \"|\" (flat_map (fun op => \
                 flat_map (fun act => [show_opt show_bool (apply_unary op l act); \
                 show_res show_bool (apply_tagged re op l None act)]) [true; false]) all_opk)",
                a = cfv(a)
            );
            out.add(Case {
                input: json!({"what": "unary+tagged-none", "l": show_fv(a)}),
                coq,
                imp: imp.join("|"),
                nontrivial: true,
                key: format!("u|{}", show_fv(a)),
            });
        }

        for b in &dvals {
            let mut imp: Vec<&str> = vec![];
            // results[op] = [static true, static false, tagged true, tagged false]
            let mut results: Vec<[R; 4]> = vec![];
            for (op, _, _) in OPS.iter() {
                let r4 = [
                    guard(|| dispatch_static(op, a.clone(), b.clone(), true)),
                    guard(|| dispatch_static(op, a.clone(), b.clone(), false)),
                    guard(|| dispatch_tagged(op, a.clone(), Some(b.clone()), true)),
                    guard(|| dispatch_tagged(op, a.clone(), Some(b.clone()), false)),
                ];
                for r in r4.iter() {
                    imp.push(show_r(r));
                }
                results.push(r4);
            }
            // oracle on the implementation
            let pattern_valid = match b {
                FieldValue::String(p) => Regex::new(p).is_ok(),
                _ => false,
            };
            for (i, (op, pos, func)) in OPS.iter().enumerate() {
                let input = json!({"op": op, "l": show_fv(a), "r": show_fv(b)});
                let unary = matches!(*op, "is_null" | "is_not_null");
                let is_regex = matches!(*op, "regex" | "not_regex");
                if unary {
                    continue;
                }
                out.count("oracle:dispatch");
                // (a) negated operations are the exact complement of the positive ones
                if let Some(pos) = pos {
                    let j = OPS.iter().position(|(o, _, _)| o == pos).unwrap();
                    for k in [0usize, 2] {
                        if let Ok(pb) = results[j][k] {
                            if results[i][k] != Ok(!pb) {
                                out.oracle_fail(
                                    "negated operation is not the complement of its positive form",
                                    input.clone(),
                                    json!({"table": if k == 0 { "static" } else { "tagged" },
                                           "positive": show_bool(pb), "negated": show_r(&results[i][k])}),
                                );
                            }
                        }
                    }
                }
                // (b) positive entries are wired to the operator function they name
                if let Some(func) = func {
                    let direct = guard(|| op_direct(func, a, b));
                    if results[i][2] != direct {
                        out.oracle_fail(
                            "tagged dispatch table entry does not behave like its operator function",
                            input.clone(),
                            json!({"function": func, "direct": show_r(&direct), "table": show_r(&results[i][2])}),
                        );
                    }
                    if (!is_regex || pattern_valid) && results[i][0] != direct {
                        out.oracle_fail(
                            "static dispatch table entry does not behave like its operator function",
                            input.clone(),
                            json!({"function": func, "direct": show_r(&direct), "table": show_r(&results[i][0])}),
                        );
                    }
                }
                // (c) contexts inside a missing @optional always survive
                if results[i][3] != Ok(true) || ((!is_regex || pattern_valid) && results[i][1] != Ok(true)) {
                    out.oracle_fail(
                        "a context inside a missing @optional must survive the filter",
                        input.clone(),
                        json!({"static": show_r(&results[i][1]), "tagged": show_r(&results[i][3])}),
                    );
                }
            }
            if oracle_only {
                continue;
            }
            let in_domain = DIRECT.iter().any(|name| *name != "equals" && !matches!(expected(name, a, b), Expect::Outside));
            let coq = format!(
                "let l := {a} in let r := {b} in let re := {t} in String.concat \"|\" (flat_map (fun op => \
                 map (show_res show_bool) [apply_static re op l r true; apply_static re op l r false; \
                 apply_tagged re op l (Some r) true; apply_tagged re op l (Some r) false]) all_opk)",
                a = cfv(a),
                b = cfv(b),
                t = re_table(a, b)
            );
            out.add(Case {
                input: json!({"what": "dispatch", "l": show_fv(a), "r": show_fv(b)}),
                coq,
                imp: imp.join("|"),
                nontrivial: in_domain,
                key: format!("x|{}|{}", show_fv(a), show_fv(b)),
            });
        }
    }
}
