//! C08: FieldValue equality / order.  Tie: `==` and `partial_cmp` vs the model on all pairs of a
//! boundary value set (+ random values); oracle: the laws themselves on all triples, on the
//! implementation.
use crate::coq::cfv;
use crate::out::{Case, Out};
use crate::rng::Rng;
use crate::show::*;
use serde_json::json;
use std::sync::Arc;
use trustfall_core::ir::FieldValue;

pub fn boundary_values() -> Vec<FieldValue> {
    use FieldValue::*;
    let s = |x: &str| String(Arc::from(x));
    let e = |x: &str| Enum(Arc::from(x));
    let l = |x: Vec<FieldValue>| List(Arc::from(x));
    let mut v = vec![
        Null,
        Boolean(false),
        Boolean(true),
        Int64(i64::MIN),
        Int64(i64::MIN + 1),
        Int64(-1),
        Int64(0),
        Int64(1),
        Int64(2),
        Int64((1 << 53) + 1),
        Int64(i64::MAX - 1),
        Int64(i64::MAX),
        Uint64(0),
        Uint64(1),
        Uint64(2),
        Uint64((1 << 53) + 1),
        Uint64(i64::MAX as u64),
        Uint64(i64::MAX as u64 + 1),
        Uint64(u64::MAX - 1),
        Uint64(u64::MAX),
        Float64(f64::MIN),
        Float64(-1.5),
        Float64(-f64::MIN_POSITIVE),
        Float64(-0.0),
        Float64(0.0),
        Float64(f64::from_bits(1)),
        Float64(1.0),
        Float64(1.5),
        Float64(9007199254740993.0),
        Float64(f64::MAX),
        s(""),
        s("a"),
        s("ab"),
        s("b"),
        s("A"),
        s("\u{e9}"),
        s("a\"b"),
        e(""),
        e("a"),
        e("b"),
        l(vec![]),
        l(vec![Null]),
        l(vec![Int64(1)]),
        l(vec![Uint64(1)]),
        l(vec![Int64(1), Int64(2)]),
        l(vec![Uint64(1), Int64(3)]),
        l(vec![Int64(1), Null]),
        l(vec![Int64(-1)]),
        l(vec![Uint64(u64::MAX)]),
        l(vec![l(vec![])]),
        l(vec![l(vec![Int64(1)])]),
        l(vec![l(vec![Uint64(1)]), l(vec![])]),
        l(vec![s("a")]),
        l(vec![s("a"), s("")]),
        l(vec![Float64(0.0)]),
        l(vec![Float64(-0.0)]),
        l(vec![Boolean(true)]),
    ];
    v.dedup_by(|_, _| false);
    v
}

pub fn random_value(rng: &mut Rng, depth: u32) -> FieldValue {
    use FieldValue::*;
    let k = rng.below(if depth == 0 { 7 } else { 8 });
    match k {
        0 => Null,
        1 => Int64(match rng.below(4) {
            0 => rng.range(-3, 3),
            1 => i64::MAX - rng.range(0, 2),
            2 => i64::MIN + rng.range(0, 2),
            _ => rng.next_u64() as i64,
        }),
        2 => Uint64(match rng.below(4) {
            0 => rng.below(4) as u64,
            1 => u64::MAX - rng.below(3) as u64,
            2 => (i64::MAX as u64) + rng.below(3) as u64 - 1,
            _ => rng.next_u64(),
        }),
        3 => {
            let mut f = f64::from_bits(rng.next_u64());
            if !f.is_finite() || rng.chance(1, 2) {
                f = (rng.range(-4, 4) as f64) / 2.0;
            }
            Float64(f)
        }
        4 => {
            let n = rng.below(3);
            let st: std::string::String = (0..n).map(|_| *rng.pick(&['a', 'b', 'A', '\u{e9}', ' '])).collect();
            String(Arc::from(st.as_str()))
        }
        5 => Boolean(rng.chance(1, 2)),
        6 => Enum(Arc::from(*rng.pick(&["", "a", "b", "ab"]))),
        _ => {
            let n = rng.below(4);
            let items: Vec<FieldValue> = (0..n).map(|_| random_value(rng, depth - 1)).collect();
            List(Arc::from(items))
        }
    }
}

pub fn run(seed: u64, n: usize, out: &mut Out) {
    let mut rng = Rng::new(seed);
    let mut vals = boundary_values();
    for _ in 0..n {
        vals.push(random_value(&mut rng, 2));
    }
    // tie: all pairs
    for a in &vals {
        for b in &vals {
            let c = a.partial_cmp(b);
            let e = a == b;
            let imp = format!(
                "{}|{}",
                match c { Some(o) => show_cmp(o).to_string(), None => "NONE".to_string() },
                show_bool(e)
            );
            let coq = format!(
                "show_res show_cmp (fv_cmp {a} {b}) ++ \"|\" ++ show_res show_bool (fv_eq {a} {b})",
                a = cfv(a),
                b = cfv(b)
            );
            let da = std::mem::discriminant(a);
            let db = std::mem::discriminant(b);
            out.count(&format!("pair:{}x{}", kind(a), kind(b)));
            out.add(Case {
                input: json!({"a": show_fv(a), "b": show_fv(b)}),
                coq,
                imp,
                nontrivial: da == db || (is_int(a) && is_int(b)),
                key: format!("{}|{}", show_fv(a), show_fv(b)),
            });
        }
    }
    // oracle: the laws on the implementation, all triples
    let nv = vals.len();
    let mut triples = 0u64;
    for i in 0..nv {
        let a = &vals[i];
        if !(a == a) {
            out.oracle_fail("eq not reflexive", json!({"a": show_fv(a)}), json!(null));
        }
        if a.partial_cmp(a) != Some(std::cmp::Ordering::Equal) {
            out.oracle_fail("cmp a a != Equal", json!({"a": show_fv(a)}), json!(null));
        }
        for j in 0..nv {
            let b = &vals[j];
            let ab = a.partial_cmp(b);
            let ba = b.partial_cmp(a);
            if (a == b) != (b == a) {
                out.oracle_fail("eq not symmetric", json!({"a": show_fv(a), "b": show_fv(b)}), json!(null));
            }
            match (ab, ba) {
                (Some(x), Some(y)) if x == y.reverse() => {}
                _ => out.oracle_fail("cmp not antisymmetric/total", json!({"a": show_fv(a), "b": show_fv(b)}), json!(null)),
            }
            if (ab == Some(std::cmp::Ordering::Equal)) != (a == b) {
                out.oracle_fail("cmp=Equal disagrees with ==", json!({"a": show_fv(a), "b": show_fv(b)}), json!(null));
            }
            if let (Some(x), Some(y)) = (int_of(a), int_of(b)) {
                if ab != Some(x.cmp(&y)) {
                    out.oracle_fail("cmp disagrees with numeric order", json!({"a": show_fv(a), "b": show_fv(b)}), json!(null));
                }
            }
            for k in 0..nv {
                let c = &vals[k];
                triples += 1;
                if a == b && b == c && !(a == c) {
                    out.oracle_fail("eq not transitive", json!({"a": show_fv(a), "b": show_fv(b), "c": show_fv(c)}), json!(null));
                }
                let bc = b.partial_cmp(c);
                let ac = a.partial_cmp(c);
                use std::cmp::Ordering::*;
                let le = |o: Option<std::cmp::Ordering>| matches!(o, Some(Less) | Some(Equal));
                if le(ab) && le(bc) && !le(ac) {
                    out.oracle_fail("order not transitive", json!({"a": show_fv(a), "b": show_fv(b), "c": show_fv(c)}), json!(null));
                }
                if ab == Some(Less) && le(bc) && ac != Some(Less) {
                    out.oracle_fail("order not transitive (strict)", json!({"a": show_fv(a), "b": show_fv(b), "c": show_fv(c)}), json!(null));
                }
            }
        }
    }
    out.count_n("oracle_triples", triples);
    out.count_n("values", nv as u64);
}

fn is_int(v: &FieldValue) -> bool {
    matches!(v, FieldValue::Int64(_) | FieldValue::Uint64(_))
}
fn int_of(v: &FieldValue) -> Option<i128> {
    match v {
        FieldValue::Int64(i) => Some(*i as i128),
        FieldValue::Uint64(u) => Some(*u as i128),
        _ => None,
    }
}
pub fn kind(v: &FieldValue) -> &'static str {
    match v {
        FieldValue::Null => "null",
        FieldValue::Int64(_) => "i64",
        FieldValue::Uint64(_) => "u64",
        FieldValue::Float64(_) => "f64",
        FieldValue::String(_) => "str",
        FieldValue::Boolean(_) => "bool",
        FieldValue::Enum(_) => "enum",
        FieldValue::List(_) => "list",
        _ => "?",
    }
}
