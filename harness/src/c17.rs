//! C17: Type operations obey the subtype lattice laws; `c16ty`: Type text round trip (part of C16).
//!
//! Tie `c17`: the whole family of 90 types (3 base names x list depth <= 3 x every nullability
//! pattern): constructors, accessors, all 8 100 ordered pairs for intersect / is_scalar_only_subtype /
//! equal_ignoring_nullability, every type x a value set for is_valid_value; plus seeded random deeper
//! types (up to 30 levels; new_list_type at 30 levels must panic in both).
//! Oracle: the lattice laws themselves on the implementation, all pairs / triples of the family.
use crate::c08::boundary_values;
use crate::coq::{cbool, cfv, cstr};
use crate::out::{Case, Out};
use crate::rng::Rng;
use crate::show::*;
use serde_json::json;
use std::panic::{catch_unwind, AssertUnwindSafe};
use std::sync::Arc;
use trustfall_core::ir::{FieldValue, Type};

pub const NAMES: [&str; 3] = ["Int", "String", "Foo"];

// ---------- renderers (mirror Ty.v: show_ty, show_ty_hex) ----------
pub fn show_ty(t: &Type) -> String {
    format!("{}#{}", t, t.__verif_mask())
}
pub fn show_ty_hex(t: &Type) -> String {
    format!("{}#{}", hex(&t.to_string()), t.__verif_mask())
}
fn show_opt_ty(o: &Option<Type>) -> String {
    match o {
        Some(t) => format!("S({})", show_ty(t)),
        None => "N".into(),
    }
}
/// Gallina literal of a type: the implementation's own representation (base name + mask).
pub fn cty(t: &Type) -> String {
    format!("(mkTy {} {}%N)", cstr(t.base_type()), t.__verif_mask())
}

fn caught<T>(f: impl FnOnce() -> T) -> Option<T> {
    catch_unwind(AssertUnwindSafe(f)).ok()
}

pub fn depth(t: &Type) -> usize {
    let mut d = 0;
    let mut cur = t.clone();
    while let Some(inner) = cur.as_list() {
        d += 1;
        cur = inner;
    }
    d
}

/// `nulls[0]` is the innermost (named) level, `nulls[d]` the outermost list.
pub fn build(name: &str, nulls: &[bool]) -> Type {
    let mut t = Type::new_named_type(name, nulls[0]);
    for nl in &nulls[1..] {
        t = Type::new_list_type(t, *nl);
    }
    t
}
/// the same construction in the model: a `res ty`
fn cbuild(name: &str, nulls: &[bool]) -> String {
    let mut e = format!("(Ok (ty_named {} {}))", cstr(name), cbool(nulls[0]));
    for nl in &nulls[1..] {
        e = format!("(bind {} (fun t => ty_list t {}))", e, cbool(*nl));
    }
    e
}

pub fn patterns(d: usize) -> Vec<Vec<bool>> {
    (0..(1u32 << (d + 1))).map(|bits| (0..=d).map(|i| bits & (1 << i) != 0).collect()).collect()
}

pub fn family() -> Vec<(String, Vec<bool>, Type)> {
    let mut v = vec![];
    for name in NAMES {
        for d in 0..=3 {
            for p in patterns(d) {
                let t = build(name, &p);
                v.push((name.to_string(), p, t));
            }
        }
    }
    v
}

fn l(x: Vec<FieldValue>) -> FieldValue {
    FieldValue::List(Arc::from(x))
}

fn has_enum(v: &FieldValue) -> bool {
    match v {
        FieldValue::Enum(_) => true,
        FieldValue::List(xs) => xs.iter().any(has_enum),
        _ => false,
    }
}

/// c08 boundary values + nested lists up to depth 3 + a few Enum-containing values.
pub fn value_set() -> Vec<FieldValue> {
    use FieldValue::*;
    let s = |x: &str| String(Arc::from(x));
    let e = |x: &str| Enum(Arc::from(x));
    let mut v = boundary_values();
    v.extend(vec![
        l(vec![Null, Null]),
        l(vec![Int64(1), Uint64(2), Null]),
        l(vec![Float64(1.5), Null]),
        l(vec![Float64(1.5), Int64(1)]),
        l(vec![Boolean(true), Boolean(false)]),
        l(vec![s("a"), Null, s("b")]),
        l(vec![l(vec![]), Null]),
        l(vec![l(vec![Int64(1)]), l(vec![Null])]),
        l(vec![l(vec![Int64(1), Null]), Null, l(vec![])]),
        l(vec![l(vec![s("a")]), l(vec![s("b"), s("c")])]),
        l(vec![l(vec![s("a")]), l(vec![Int64(1)])]),
        l(vec![l(vec![Int64(1)]), Int64(2)]),
        l(vec![l(vec![l(vec![])])]),
        l(vec![l(vec![l(vec![Int64(1)])])]),
        l(vec![l(vec![l(vec![Int64(1), Null]), Null]), Null]),
        l(vec![l(vec![l(vec![Int64(1)]), l(vec![Uint64(2)])]), l(vec![l(vec![])])]),
        l(vec![l(vec![l(vec![s("x")])])]),
        l(vec![l(vec![l(vec![s("x")]), l(vec![Int64(1)])])]),
        l(vec![l(vec![l(vec![l(vec![Int64(1)])])])]),
        l(vec![l(vec![l(vec![Null])]), l(vec![Null]), Null]),
        // Enum-containing (is_valid_value is unimplemented! when the scan reaches the Enum)
        l(vec![e("a")]),
        l(vec![Int64(1), e("a")]),
        l(vec![s("x"), e("a")]),
        l(vec![Null, e("a")]),
        l(vec![l(vec![Int64(1)]), l(vec![e("a")])]),
        l(vec![l(vec![s("x")]), l(vec![e("a")])]),
        l(vec![l(vec![l(vec![e("a")])])]),
        l(vec![Int64(1), l(vec![e("a")])]),
    ]);
    v
}

/// a value that mostly conforms to `t`, with occasional deviations
fn value_for(t: &Type, rng: &mut Rng, budget: &mut i32) -> FieldValue {
    use FieldValue::*;
    *budget -= 1;
    let dev = rng.below(24);
    if dev == 0 {
        return Null;
    }
    if dev == 1 {
        return Enum(Arc::from("a"));
    }
    if dev == 2 {
        return Int64(7);
    }
    if dev == 3 {
        return l(vec![]);
    }
    if t.nullable() && rng.chance(1, 5) {
        return Null;
    }
    match t.as_list() {
        Some(inner) => {
            let n = if *budget <= 0 { 0 } else { 1 + rng.below(2) };
            l((0..n).map(|_| value_for(&inner, rng, budget)).collect())
        }
        None => match t.base_type() {
            "Int" => {
                if rng.chance(1, 2) {
                    Int64(rng.range(-3, 3))
                } else {
                    Uint64(rng.below(5) as u64)
                }
            }
            "String" => String(Arc::from(*rng.pick(&["", "a", "b"]))),
            "Float" => Float64(1.5),
            "Boolean" => Boolean(true),
            _ => match rng.below(3) {
                0 => Null,
                1 => Int64(1),
                _ => String(Arc::from("a")),
            },
        },
    }
}

fn random_type(rng: &mut Rng, names: &[&str], max_depth: usize) -> (std::string::String, Vec<bool>, Type) {
    let name = *rng.pick(names);
    let d = match rng.below(6) {
        0 => max_depth,
        1 => max_depth.saturating_sub(1),
        2 => rng.below(4),
        _ => rng.below(max_depth + 1),
    };
    let p: Vec<bool> = (0..=d).map(|_| rng.chance(1, 2)).collect();
    let t = build(name, &p);
    (name.to_string(), p, t)
}

fn valid_imp(t: &Type, v: &FieldValue) -> Option<bool> {
    caught(|| t.is_valid_value(v))
}
fn show_valid(r: Option<bool>) -> String {
    match r {
        Some(b) => show_bool(b).to_string(),
        None => "PANIC".into(),
    }
}

fn add_type_cases(name: &str, p: &[bool], t: &Type, out: &mut Out, tag: &str) {
    let d = p.len() - 1;
    // constructors
    out.count(&format!("{tag}type:depth{d}"));
    out.add(Case {
        input: json!({"op": "construct", "name": name, "nullable_inner_to_outer": p}),
        coq: format!("show_res show_ty {}", cbuild(name, p)),
        imp: show_ty(t),
        nontrivial: d > 0,
        key: format!("ctor|{}", show_ty(t)),
    });
    // accessors
    let c = cty(t);
    let imp = format!(
        "{}|{}|{}|{}|{}|{}|{}|{}|T",
        show_bool(t.nullable()),
        show_bool(t.is_list()),
        show_opt_ty(&t.as_list()),
        show_ty(&t.with_nullability(true)),
        show_ty(&t.with_nullability(false)),
        show_bool(t.__verif_is_orderable()),
        hex(t.base_type()),
        depth(t),
    );
    let coq = format!(
        "show_bool (ty_nullable {c}) ++ \"|\" ++ show_bool (ty_is_list {c}) ++ \"|\" ++ show_opt show_ty (ty_as_list {c}) ++ \"|\" ++ show_ty (ty_with_nullability {c} true) ++ \"|\" ++ show_ty (ty_with_nullability {c} false) ++ \"|\" ++ show_bool (ty_orderable {c}) ++ \"|\" ++ hex (ty_base_type {c}) ++ \"|\" ++ dnat (ty_depth {c}) ++ \"|\" ++ show_bool (wf_ty {c})"
    );
    out.add(Case {
        input: json!({"op": "accessors", "type": t.to_string()}),
        coq,
        imp,
        nontrivial: true,
        key: format!("acc|{}", show_ty(t)),
    });
    // one more list level (panics at 30 levels)
    for nl in [true, false] {
        let r = caught(|| Type::new_list_type(t.clone(), nl));
        let imp = match &r {
            Some(t2) => show_ty(t2),
            None => "PANIC".into(),
        };
        if d == 30 && r.is_some() {
            out.oracle_fail("new_list_type at 30 levels did not panic", json!({"type": t.to_string()}), json!(null));
        }
        if d < 30 {
            match &r {
                None => out.oracle_fail("new_list_type panicked below 30 levels", json!({"type": t.to_string()}), json!(null)),
                Some(t2) => {
                    if t2.as_list().as_ref() != Some(t) || t2.nullable() != nl || !t2.is_list() {
                        out.oracle_fail("new_list_type / as_list / nullable inconsistent", json!({"type": t.to_string(), "nullable": nl}), json!(show_ty(t2)));
                    }
                }
            }
        }
        out.add(Case {
            input: json!({"op": "new_list_type", "type": t.to_string(), "nullable": nl}),
            coq: format!("show_res show_ty (ty_list {c} {})", cbool(nl)),
            imp,
            nontrivial: true,
            key: format!("list|{}|{nl}", show_ty(t)),
        });
    }
}

fn add_pair_case(a: &Type, b: &Type, out: &mut Out, tag: &str) {
    let inter = caught(|| a.intersect(b));
    let imp = format!(
        "{}|{}|{}",
        match &inter {
            Some(o) => show_opt_ty(o),
            None => "PANIC".into(),
        },
        show_bool(a.__verif_is_scalar_only_subtype(b)),
        show_bool(a.__verif_equal_ignoring_nullability(b)),
    );
    let (ca, cb) = (cty(a), cty(b));
    let coq = format!(
        "show_res (show_opt show_ty) (ty_intersect {ca} {cb}) ++ \"|\" ++ show_bool (ty_sub {ca} {cb}) ++ \"|\" ++ show_bool (ty_eq_ign_null {ca} {cb})"
    );
    let same_shape = a.base_type() == b.base_type() && depth(a) == depth(b);
    out.count(&format!("{tag}pair:{}", if same_shape { "same-base-and-depth" } else { "different-shape" }));
    out.add(Case {
        input: json!({"op": "pair", "a": a.to_string(), "b": b.to_string()}),
        coq,
        imp,
        nontrivial: same_shape,
        key: format!("pair|{}|{}", show_ty(a), show_ty(b)),
    });
}

fn add_valid_case(t: &Type, v: &FieldValue, out: &mut Out, tag: &str) {
    let r = valid_imp(t, v);
    out.count(&format!(
        "{tag}valid:{}",
        match r {
            Some(true) => "true",
            Some(false) => "false",
            None => "panic",
        }
    ));
    if r.is_none() && !has_enum(v) {
        out.oracle_fail("is_valid_value panicked on an enum-free value", json!({"type": t.to_string(), "value": show_fv(v)}), json!(null));
    }
    out.add(Case {
        input: json!({"op": "is_valid_value", "type": t.to_string(), "value": show_fv(v)}),
        coq: format!("show_res show_bool (ty_valid {} {})", cty(t), cfv(v)),
        imp: show_valid(r),
        nontrivial: r != Some(false) || (t.is_list() && matches!(v, FieldValue::List(_))),
        key: format!("valid|{}|{}", show_ty(t), show_fv(v)),
    });
}

/// The laws, on the implementation only.
fn oracles(types: &[Type], vals: &[FieldValue], out: &mut Out, triples: bool) {
    let sub = |p: &Type, c: &Type| p.__verif_is_scalar_only_subtype(c);
    let eqn = |a: &Type, b: &Type| a.__verif_equal_ignoring_nullability(b);
    let n = types.len();
    let ts = |t: &Type| t.to_string();
    // validity table (None = panic)
    let valid: Vec<Vec<Option<bool>>> = types.iter().map(|t| vals.iter().map(|v| valid_imp(t, v)).collect()).collect();
    let enumfree: Vec<bool> = vals.iter().map(|v| !has_enum(v)).collect();
    let mut checks = 0u64;
    for i in 0..n {
        let a = &types[i];
        if a.intersect(a).as_ref() != Some(a) {
            out.oracle_fail("intersect not idempotent", json!({"a": ts(a)}), json!(null));
        }
        if !sub(a, a) {
            out.oracle_fail("subtype not reflexive", json!({"a": ts(a)}), json!(null));
        }
        if !eqn(a, a) {
            out.oracle_fail("equal_ignoring_nullability not reflexive", json!({"a": ts(a)}), json!(null));
        }
        for j in 0..n {
            let b = &types[j];
            let ab = a.intersect(b);
            let ba = b.intersect(a);
            checks += 1;
            if ab != ba {
                out.oracle_fail("intersect not commutative", json!({"a": ts(a), "b": ts(b)}), json!(null));
            }
            let shape_differs = a.base_type() != b.base_type() || depth(a) != depth(b);
            if ab.is_none() != shape_differs {
                out.oracle_fail("intersect is None not exactly when base/list depth differ", json!({"a": ts(a), "b": ts(b)}), json!(null));
            }
            if eqn(a, b) != !shape_differs {
                out.oracle_fail("equal_ignoring_nullability is not 'same base and list depth'", json!({"a": ts(a), "b": ts(b)}), json!(null));
            }
            if eqn(a, b) != eqn(b, a) {
                out.oracle_fail("equal_ignoring_nullability not symmetric", json!({"a": ts(a), "b": ts(b)}), json!(null));
            }
            if sub(a, b) && !eqn(a, b) {
                out.oracle_fail("subtype does not imply equal_ignoring_nullability", json!({"a": ts(a), "b": ts(b)}), json!(null));
            }
            if sub(a, b) && sub(b, a) && a != b {
                out.oracle_fail("subtype not antisymmetric", json!({"a": ts(a), "b": ts(b)}), json!(null));
            }
            if let Some(c) = &ab {
                if !sub(a, c) || !sub(b, c) {
                    out.oracle_fail("intersection is not a subtype of both", json!({"a": ts(a), "b": ts(b)}), json!(ts(c)));
                }
                // valid for the meet <-> valid for both (enum-free values)
                let ci = types.iter().position(|t| t == c);
                for (k, v) in vals.iter().enumerate() {
                    if !enumfree[k] {
                        continue;
                    }
                    let vc = match ci {
                        Some(ci) => valid[ci][k],
                        None => valid_imp(c, v),
                    };
                    if vc != Some(valid[i][k] == Some(true) && valid[j][k] == Some(true)) {
                        out.oracle_fail("valid(a meet b) != valid a && valid b", json!({"a": ts(a), "b": ts(b), "value": show_fv(v)}), json!(null));
                    }
                }
            }
            // greatest: every common subtype in the family is below the meet
            for d in types {
                if sub(a, d) && sub(b, d) {
                    match &ab {
                        None => out.oracle_fail("common subtype exists but intersect is None", json!({"a": ts(a), "b": ts(b), "d": ts(d)}), json!(null)),
                        Some(c) => {
                            if !sub(c, d) {
                                out.oracle_fail("intersection is not the greatest common subtype", json!({"a": ts(a), "b": ts(b), "d": ts(d)}), json!(ts(c)));
                            }
                        }
                    }
                }
            }
            // valid_mono: a supertype of b accepts whatever b accepts (all values, Enum ones too)
            if sub(a, b) {
                for k in 0..vals.len() {
                    if valid[j][k] == Some(true) && valid[i][k] != Some(true) {
                        out.oracle_fail("value valid for a type but not for its supertype", json!({"super": ts(a), "sub": ts(b), "value": show_fv(&vals[k])}), json!(null));
                    }
                }
            }
            if triples {
                for c in types {
                    checks += 1;
                    if sub(a, b) && sub(b, c) && !sub(a, c) {
                        out.oracle_fail("subtype not transitive", json!({"a": ts(a), "b": ts(b), "c": ts(c)}), json!(null));
                    }
                    if eqn(a, b) && eqn(b, c) && !eqn(a, c) {
                        out.oracle_fail("equal_ignoring_nullability not transitive", json!({"a": ts(a), "b": ts(b), "c": ts(c)}), json!(null));
                    }
                    let l = ab.as_ref().and_then(|x| x.intersect(c));
                    let r = b.intersect(c).and_then(|y| a.intersect(&y));
                    if l != r {
                        out.oracle_fail("intersect not associative", json!({"a": ts(a), "b": ts(b), "c": ts(c)}), json!(null));
                    }
                }
            }
        }
    }
    for (k, v) in vals.iter().enumerate() {
        if enumfree[k] {
            for (i, t) in types.iter().enumerate() {
                if valid[i][k].is_none() {
                    out.oracle_fail("is_valid_value panicked on an enum-free value", json!({"type": ts(t), "value": show_fv(v)}), json!(null));
                }
            }
        }
    }
    out.count_n("oracle_checks", checks);
}

pub fn run(seed: u64, n: usize, out: &mut Out) {
    let mut rng = Rng::new(seed);
    let fam = family();
    let types: Vec<Type> = fam.iter().map(|x| x.2.clone()).collect();
    let vals = value_set();
    out.count_n("family_types", types.len() as u64);
    out.count_n("values", vals.len() as u64);
    // construction must agree with Type::parse of the displayed text
    for (name, p, t) in &fam {
        add_type_cases(name, p, t, out, "");
        match caught(|| Type::parse(&t.to_string())) {
            Some(Ok(t2)) if &t2 == t => {}
            _ => out.oracle_fail("parse(display(t)) != t", json!({"type": t.to_string()}), json!(null)),
        }
    }
    for a in &types {
        for b in &types {
            add_pair_case(a, b, out, "");
        }
    }
    for t in &types {
        for v in &vals {
            add_valid_case(t, v, out, "");
        }
    }
    oracles(&types, &vals, out, true);

    // ---- seeded random deeper types
    let mut deep: Vec<Type> = vec![];
    // the two extreme depth-30 types always
    for nl in [true, false] {
        let p = vec![nl; 31];
        let t = build("Int", &p);
        add_type_cases("Int", &p, &t, out, "deep-");
        deep.push(t);
    }
    for _ in 0..n {
        let (name, p, t) = random_type(&mut rng, &NAMES, 30);
        add_type_cases(&name, &p, &t, out, "deep-");
        deep.push(t);
        // a partner of the same shape (so that intersect / sub are exercised at depth)
        let p2: Vec<bool> = p.iter().map(|b| if rng.chance(1, 3) { !*b } else { *b }).collect();
        let t2 = build(&name, &p2);
        deep.push(t2);
    }
    let mut dvals: Vec<FieldValue> = vec![];
    for i in 0..deep.len() {
        let a = deep[i].clone();
        // same-shape partner, a random partner, itself
        let partners = [i, (i + 1) % deep.len(), rng.below(deep.len()), rng.below(deep.len())];
        for j in partners {
            add_pair_case(&a, &deep[j], out, "deep-");
        }
        for _ in 0..3 {
            let mut budget = 40;
            let v = value_for(&a, &mut rng, &mut budget);
            add_valid_case(&a, &v, out, "deep-");
            let j = rng.below(deep.len());
            add_valid_case(&deep[j], &v, out, "deep-");
            if dvals.len() < 60 {
                dvals.push(v);
            }
        }
    }
    // laws on a subsample of the deep types (pairs only + greatest within the sample)
    let sample: Vec<Type> = deep.iter().take(40).cloned().collect();
    oracles(&sample, &dvals, out, true);
}

// =====================================================================================
// c16ty: Display -> Type::parse round trip
// =====================================================================================

fn parse_imp(s: &str) -> Option<Result<Type, ()>> {
    caught(|| Type::parse(s).map_err(|_| ()))
}
fn show_parse(r: &Option<Result<Type, ()>>) -> String {
    match r {
        None => "PANIC".into(),
        Some(Err(())) => "N".into(),
        Some(Ok(t)) => format!("S({})", show_ty_hex(t)),
    }
}
fn name_ok(s: &str) -> bool {
    !s.ends_with('!') && !s.starts_with('[')
}

fn add_parse_case(text: &str, out: &mut Out, what: &str) -> Option<Result<Type, ()>> {
    let r = parse_imp(text);
    out.count(&format!(
        "parse:{}",
        match &r {
            None => "panic",
            Some(Err(_)) => "error",
            Some(Ok(_)) => "ok",
        }
    ));
    out.add(Case {
        input: json!({"op": "parse", "text": text, "what": what}),
        coq: format!("show_res (show_opt show_ty_hex) (ty_parse_res {})", cstr(text)),
        imp: show_parse(&r),
        nontrivial: text.contains('[') || text.contains('!'),
        key: format!("parse|{}", hex(text)),
    });
    // oracle: whatever parses prints back verbatim
    if let Some(Ok(t)) = &r {
        if t.to_string() != text {
            out.oracle_fail("display(parse(s)) != s", json!({"text": text}), json!(t.to_string()));
        }
    }
    r
}

fn add_roundtrip(name: &str, p: &[bool], out: &mut Out) {
    let t = build(name, p);
    let text = t.to_string();
    out.count(&format!("roundtrip:depth{}", p.len() - 1));
    out.add(Case {
        input: json!({"op": "display", "name": name, "nullable_inner_to_outer": p}),
        coq: format!("hex (ty_display {}) ++ \"|\" ++ show_bool (wf_ty {}) ++ \"|\" ++ show_bool (name_ok {})", cty(&t), cty(&t), cstr(name)),
        imp: format!("{}|T|{}", hex(&text), show_bool(name_ok(name))),
        nontrivial: true,
        key: format!("display|{}", show_ty_hex(&t)),
    });
    let r = add_parse_case(&text, out, "display of a constructed type");
    if name_ok(name) {
        match &r {
            Some(Ok(t2)) if *t2 == t => {}
            _ => out.oracle_fail("parse(display(t)) != t", json!({"name": name, "nullable_inner_to_outer": p}), json!(show_parse(&r))),
        }
        // serde of Type goes through its text: serde_json and ron round trips (implementation only)
        match caught(|| serde_json::to_string(&t).ok().and_then(|s| serde_json::from_str::<Type>(&s).ok())) {
            Some(Some(t2)) if t2 == t => {}
            other => out.oracle_fail("serde_json round trip of Type failed", json!({"type": text}), json!(format!("{other:?}"))),
        }
        match caught(|| ron::to_string(&t).ok().and_then(|s| ron::from_str::<Type>(&s).ok())) {
            Some(Some(t2)) if t2 == t => {}
            other => out.oracle_fail("ron round trip of Type failed", json!({"type": text}), json!(format!("{other:?}"))),
        }
    }
}

pub fn run_c16ty(seed: u64, n: usize, out: &mut Out) {
    let mut rng = Rng::new(seed);
    let names_exhaustive = ["Int", "Foo_1"];
    // every nullability pattern for d <= 6
    for name in names_exhaustive {
        for d in 0..=6 {
            for p in patterns(d) {
                add_roundtrip(name, &p, out);
            }
        }
    }
    // unusual names (the parser accepts any remainder as a name), d <= 2
    let odd = ["", " ", "a b", " Int ", "x]", "x[y", "]", "a!b", "\u{e9}t\u{e9}", "Int!", "!", "[x", "[x]", "[]", "[x]!"];
    for name in odd {
        for d in 0..=2 {
            for p in patterns(d) {
                add_roundtrip(name, &p, out);
            }
        }
    }
    // sampled up to 30 levels; always the all-nullable / all-non-null extremes at 29 and 30
    for d in [29usize, 30] {
        for nl in [true, false] {
            add_roundtrip("Int", &vec![nl; d + 1], out);
        }
    }
    for _ in 0..n {
        let d = 7 + rng.below(24);
        let p: Vec<bool> = (0..=d).map(|_| rng.chance(1, 2)).collect();
        let name: &str = *rng.pick(&["Int", "String", "Foo_1", "a b"]);
        add_roundtrip(name, &p, out);
    }
    // more than 30 levels of text: Type::parse panics inside from_type
    for d in [31usize, 32, 40] {
        for (inner, close) in [("Int", "]"), ("Int!", "]!"), ("", "]")] {
            let text = format!("{}{}{}", "[".repeat(d), inner, close.repeat(d));
            let r = add_parse_case(&text, out, "more than 30 list levels");
            if matches!(r, Some(Ok(_))) {
                out.oracle_fail("text with more than 30 list levels parsed", json!({"text": text}), json!(null));
            }
            // the same through serde (implementation only): must not produce a Type
            let js = serde_json::to_string(&text).unwrap();
            if let Some(Ok(_)) = caught(|| serde_json::from_str::<Type>(&js)) {
                out.oracle_fail("serde_json accepted a type with more than 30 list levels", json!({"text": text}), json!(null));
            }
        }
    }
    // malformed / unusual texts
    let texts = [
        "", "!", "!!", "[", "]", "[]", "[!]", "[]!", "[Int", "Int]", "[[Int]", "[Int]]", " [Int]", "[Int] ", "[Int]!!",
        "[Int!]!", "[ Int ]", "[Int]x", "x[Int]", "[Int][Int]", "[[]]", "[[!]!]!", "Int!!", "[Int!!]", "[!Int]", "[[Int]!",
        "[\u{e9}]", "[[[[[[[[x]]]]]]]]", "[[[[[[[[x]]]]]]]",
    ];
    for t in texts {
        add_parse_case(t, out, "hand-written");
    }
    // random short texts over the syntax alphabet
    for _ in 0..(4 * n) {
        let len = rng.below(11);
        let s: String = (0..len).map(|_| *rng.pick(&['[', '[', ']', ']', '!', 'I', ' '])).collect();
        add_parse_case(&s, out, "random");
    }
}
