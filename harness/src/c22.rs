//! C22: fold-count early termination.  Template family of queries with count filters
//! (every operator, any sign/magnitude of arguments), count tags used in the same component, in
//! sibling folds and in sibling count filters, nested folds with outputs — on random datasets.
//! Oracle 1 (spec): rows vs Sem (full materialisation).  Oracle 2 (metamorphic, implementation only):
//! adding an @output on the count (which disables the min-size optimisation) must not change the
//! other outputs.  Tie: Exec model vs implementation.
use crate::engine::*;
use crate::out::{Case, Out};
use crate::rng::Rng;
use crate::world;
use serde_json::json;
use std::collections::BTreeMap;
use std::sync::Arc;
use trustfall_core::frontend::parse;
use trustfall_core::ir::FieldValue;

fn count_arg(rng: &mut Rng) -> FieldValue {
    match rng.below(10) {
        0 => FieldValue::Int64(-1),
        1 => FieldValue::Uint64(u64::MAX),
        2 => FieldValue::Int64(i64::MAX),
        3 => FieldValue::Int64(i64::MIN),
        4 => FieldValue::Uint64(rng.below(4) as u64),
        _ => FieldValue::Int64(rng.range(0, 3)),
    }
}

struct Tpl {
    text: String,
    args: BTreeMap<Arc<str>, FieldValue>,
    /// the query is in the known class K-min-count-observed (F9): a fold eligible for take(min)
    /// whose count is observed through a tag used outside the parent component's own vertex filters,
    /// or whose nested folds have outputs
    known: bool,
    with_count_output: Option<String>,
}

fn gen_tpl(rng: &mut Rng) -> Tpl {
    let edges = ["link", "next", "parent"];
    let e1 = *rng.pick(&edges);
    let e2 = *rng.pick(&edges);
    let e3 = *rng.pick(&edges);
    let op = *rng.pick(&["=", "!=", "<", "<=", ">", ">=", ">=", ">", "one_of", "not_one_of"]);
    let mut args: BTreeMap<Arc<str>, FieldValue> = BTreeMap::new();
    let a = if op == "one_of" || op == "not_one_of" {
        let n = rng.below(3);
        FieldValue::List(Arc::from((0..n).map(|_| count_arg(rng)).collect::<Vec<_>>()))
    } else {
        count_arg(rng)
    };
    args.insert(Arc::from("a"), a);
    let is_min = op == ">" || op == ">=";
    // a second count filter; together with a lower bound (`>` / `>=`) an EXCLUSION (`!=`, `not_one_of`) with small
    // arguments is the interesting combination (the exclusion must be evaluated on the real count)
    let second = if rng.chance(if is_min { 3 } else { 1 }, if is_min { 5 } else { 3 }) {
        let op2 = if is_min { *rng.pick(&["!=", "!=", "not_one_of", "<=", ">=", ">"]) } else { *rng.pick(&["<=", ">=", "!=", ">"]) };
        let b = if op2 == "not_one_of" {
            FieldValue::List(Arc::from((0..1 + rng.below(2)).map(|_| FieldValue::Int64(rng.range(0, 3))).collect::<Vec<_>>()))
        } else if op2 == "!=" {
            FieldValue::Int64(rng.range(0, 4))
        } else {
            count_arg(rng)
        };
        args.insert(Arc::from("b"), b);
        Some(op2)
    } else {
        None
    };
    let min_eligible_ops = is_min && second.map(|o| o == ">" || o == ">=").unwrap_or(true);
    let second_txt = second.map(|o| format!(" @filter(op: \"{o}\", value: [\"$b\"])")).unwrap_or_default();
    // the unobserved fold (shape 0), where the engine really truncates, gets a third of the worlds
    let shape = match rng.below(21) {
        0..=6 => 0,
        7 | 8 => 1,
        9 | 10 => 2,
        11 | 12 => 3,
        13 | 14 => 5,
        15 | 16 => 6,
        17 | 18 => 7,
        _ => 4,
    };
    let (body, observed, count_out): (String, bool, Option<String>) = match shape {
        0 => {
            // plain count filter, nothing observes the count or the contents
            let q = |extra: &str| format!(
                "query {{\n  Thing {{\n    id @output(name: \"o0\")\n    {e1} @fold @transform(op: \"count\") @filter(op: \"{op}\", value: [\"$a\"]){second_txt}{extra} {{\n      flag @filter(op: \"is_not_null\")\n    }}\n  }}\n}}\n");
            (q(""), false, Some(q(" @output(name: \"cnt\")")))
        }
        1 => {
            // count tag used in a SIBLING fold's vertex filter
            let q = |extra: &str| format!(
                "query {{\n  Thing {{\n    id @output(name: \"o0\")\n    {e1} @fold @transform(op: \"count\") @filter(op: \"{op}\", value: [\"$a\"]){second_txt} @tag(name: \"c\"){extra} {{\n      flag @filter(op: \"is_not_null\")\n    }}\n    {e2} @fold {{\n      id @filter(op: \"<=\", value: [\"%c\"]) @output(name: \"o1\")\n    }}\n  }}\n}}\n");
            (q(""), true, Some(q(" @output(name: \"cnt\")")))
        }
        2 => {
            // count tag used in a sibling fold's COUNT filter
            let q = |extra: &str| format!(
                "query {{\n  Thing {{\n    id @output(name: \"o0\")\n    {e1} @fold @transform(op: \"count\") @filter(op: \"{op}\", value: [\"$a\"]){second_txt} @tag(name: \"c\"){extra} {{\n      flag @filter(op: \"is_not_null\")\n    }}\n    {e2} @fold @transform(op: \"count\") @filter(op: \"<=\", value: [\"%c\"]) @output(name: \"o1\") {{\n      flag @filter(op: \"is_not_null\")\n    }}\n  }}\n}}\n");
            (q(""), true, Some(q(" @output(name: \"cnt\")")))
        }
        3 => {
            // nested fold with outputs inside the counted fold
            let q = |extra: &str| format!(
                "query {{\n  Thing {{\n    id @output(name: \"o0\")\n    {e1} @fold @transform(op: \"count\") @filter(op: \"{op}\", value: [\"$a\"]){second_txt}{extra} {{\n      flag @filter(op: \"is_not_null\")\n      {e3} @fold {{\n        id @output(name: \"o1\")\n      }}\n    }}\n  }}\n}}\n");
            (q(""), true, Some(q(" @output(name: \"cnt\")")))
        }
        5 => {
            // the only thing observing the counted fold is a COUNT output of a fold nested inside it
            let q = |extra: &str| format!(
                "query {{\n  Thing {{\n    id @output(name: \"o0\")\n    {e1} @fold @transform(op: \"count\") @filter(op: \"{op}\", value: [\"$a\"]){second_txt}{extra} {{\n      flag @filter(op: \"is_not_null\")\n      {e3} @fold @transform(op: \"count\") @output(name: \"o1\")\n    }}\n  }}\n}}\n");
            (q(""), true, Some(q(" @output(name: \"cnt\")")))
        }
        6 => {
            // outputs two fold levels below the counted fold
            let q = |extra: &str| format!(
                "query {{\n  Thing {{\n    id @output(name: \"o0\")\n    {e1} @fold @transform(op: \"count\") @filter(op: \"{op}\", value: [\"$a\"]){second_txt}{extra} {{\n      flag @filter(op: \"is_not_null\")\n      {e3} @fold {{\n        flag @filter(op: \"is_not_null\")\n        {e2} @fold @transform(op: \"count\") @output(name: \"o2\") {{\n          id @output(name: \"o1\")\n        }}\n      }}\n    }}\n  }}\n}}\n");
            (q(""), true, Some(q(" @output(name: \"cnt\")")))
        }
        7 => {
            // the count tag is imported two fold levels down inside a sibling fold
            let q = |extra: &str| format!(
                "query {{\n  Thing {{\n    id @output(name: \"o0\")\n    {e1} @fold @transform(op: \"count\") @filter(op: \"{op}\", value: [\"$a\"]){second_txt} @tag(name: \"c\"){extra} {{\n      flag @filter(op: \"is_not_null\")\n    }}\n    {e2} @fold {{\n      flag @filter(op: \"is_not_null\")\n      {e3} @fold {{\n        id @filter(op: \"<=\", value: [\"%c\"]) @output(name: \"o1\")\n      }}\n    }}\n  }}\n}}\n");
            (q(""), true, Some(q(" @output(name: \"cnt\")")))
        }
        _ => {
            // count tag used by a later vertex of the SAME component (this disables the optimisation)
            let q = |extra: &str| format!(
                "query {{\n  Thing {{\n    id @output(name: \"o0\")\n    {e1} @fold @transform(op: \"count\") @filter(op: \"{op}\", value: [\"$a\"]){second_txt} @tag(name: \"c\"){extra} {{\n      flag @filter(op: \"is_not_null\")\n    }}\n    {e2} {{\n      id @filter(op: \">=\", value: [\"%c\"]) @output(name: \"o1\")\n    }}\n  }}\n}}\n");
            (q(""), false, Some(q(" @output(name: \"cnt\")")))
        }
    };
    Tpl { text: body, args, known: observed && min_eligible_ops, with_count_output: count_out }
}

pub fn run(seed: u64, n: usize, out: &mut Out) {
    let mut rng = Rng::new(seed);
    let schema = world::schema();
    let mut done = 0usize;
    let mut attempts = 0usize;
    while done < n && attempts < n * 20 {
        attempts += 1;
        let mut r2 = rng.fork();
        let dataset = world::gen_dataset(&mut r2, 9);
        let t = gen_tpl(&mut r2);
        let indexed = match parse(&schema, &t.text) {
            Ok(q) => q,
            Err(e) => {
                if attempts < 3 { eprintln!("REJECTED: {e:?}\n{}", t.text); }
                out.count("template-rejected");
                continue;
            }
        };
        let c = EngineCase {
            dataset,
            query_text: t.text.clone(),
            indexed,
            args: Arc::new(t.args.clone()),
            features: Default::default(),
            var_hints: Default::default(),
        };
        let o = run_impl(&c);
        let imp = show_outcome(&o);
        let nontrivial = matches!(&o, Outcome::Rows(r) if !r.is_empty());
        out.count(if t.known { "class:K-min-count-observed" } else { "class:none" });
        out.count(match &o {
            Outcome::Rows(r) if r.is_empty() => "outcome:no-rows",
            Outcome::Rows(_) => "outcome:rows",
            Outcome::ArgError(_) => "outcome:arg-error",
            Outcome::Panic(_) => "outcome:panic",
        });
        let input = case_input_json(&c);
        let coq_args = case_coq_args(&c);
        out.add(Case { input: input.clone(), coq: format!("run_exec {coq_args}"), imp: imp.clone(), nontrivial, key: format!("{done}:{}", t.text) });
        out.add_info(Case {
            input: input.clone(),
            coq: format!("run_hyps {} {}", crate::irprint::query(&c.indexed.ir_query), crate::irprint::args(&c.args)),
            imp: String::new(),
            nontrivial: false,
            key: format!("h{done}"),
        });
        out.add_spec(
            Case { input: input.clone(), coq: format!("run_sem {coq_args}"), imp: imp.clone(), nontrivial, key: format!("s{done}:{}", t.text) },
            if t.known { Some("K-min-count-observed".to_string()) } else { None },
        );
        // metamorphic oracle on the implementation alone
        if let (Some(q2), Outcome::Rows(rows1)) = (&t.with_count_output, &o) {
            if let Ok(ix2) = parse(&schema, q2) {
                let c2 = EngineCase { dataset: c.dataset.clone(), query_text: q2.clone(), indexed: ix2, args: c.args.clone(), features: Default::default(), var_hints: Default::default() };
                if let Outcome::Rows(rows2) = run_impl(&c2) {
                    let strip = |rows: &Vec<Row>| {
                        let mut v: Vec<String> = rows
                            .iter()
                            .map(|r| {
                                let mut r = r.clone();
                                r.remove("cnt");
                                show_row(&r)
                            })
                            .collect();
                        v.sort();
                        v
                    };
                    if strip(rows1) != strip(&rows2) {
                        let detail = json!({"with_count_output": q2, "rows": strip(rows1), "rows_with_count_output": strip(&rows2)});
                        if t.known {
                            out.oracle_fail_class("K-min-count-observed", "observing the fold count changed the other outputs", input.clone(), detail);
                        } else {
                            out.oracle_fail("observing the fold count changed the other outputs", input.clone(), detail);
                        }
                    }
                    out.count("metamorphic-checked");
                }
            }
        }
        done += 1;
    }
}


/// Deep `@recurse` through the edge that needs the implicit coercion (Item.up leads to Thing, which has
/// no `up`), and through plain edges, with nested selections: tie + specification oracle.
pub fn run_deep_recursion(seed: u64, n: usize, out: &mut Out) {
    let mut rng = Rng::new(seed ^ 0xdee9);
    let schema = world::schema();
    for i in 0..n {
        let mut r2 = rng.fork();
        let root = *r2.pick(&["Item", "Box", "Leaf", "Thing"]);
        let d = r2.range(2, 5);
        let (edge, hi) = if root == "Thing" {
            (*r2.pick(&["next", "link", "parent"]), "")
        } else {
            (*r2.pick(&["up", "up", "peer", "next"]), "")
        };
        let hi = if edge == "up" { *r2.pick(&["", "(hi: 1000)", "(hi: 6)"]) } else { hi };
        let inner = match r2.range(0, 4) {
            0 => "id @output".to_string(),
            1 => "id @output next @optional { id @output(name: \"n\") }".to_string(),
            2 if edge == "up" => format!("... on Item {{ id @output up{hi} @recurse(depth: {}) {{ id @output(name: \"deep\") }} }}", r2.range(2, 4)),
            3 => "id @output link @fold { id @output(name: \"l\") }".to_string(),
            _ => "id @output score @filter(op: \"is_not_null\")".to_string(),
        };
        let text = format!("query {{ {root} {{ id @output(name: \"r\") {edge}{hi} @recurse(depth: {d}) {{ {inner} }} }} }}");
        let indexed = match parse(&schema, &text) {
            Ok(ix) => ix,
            Err(_) => {
                out.count("deep-recursion:template-rejected");
                continue;
            }
        };
        out.count("family:deep-recursion");
        let c = EngineCase {
            dataset: world::gen_dataset(&mut r2, 9),
            query_text: text.clone(),
            indexed,
            args: Arc::new(BTreeMap::new()),
            features: Default::default(),
            var_hints: Default::default(),
        };
        let o = run_impl(&c);
        let imp = show_outcome(&o);
        let nontrivial = matches!(&o, Outcome::Rows(r) if !r.is_empty());
        let input = case_input_json(&c);
        let coq_args = case_coq_args(&c);
        if let Outcome::Panic(m) = &o {
            out.oracle_fail("executing an accepted query panicked", input.clone(), json!({"panic": m.chars().take(300).collect::<String>()}));
        }
        out.add(Case { input: input.clone(), coq: format!("run_exec {coq_args}"), imp: imp.clone(), nontrivial, key: format!("dr{i}:{text}") });
        out.add_spec(Case { input, coq: format!("run_sem {coq_args}"), imp, nontrivial, key: format!("sdr{i}:{text}") }, None);
    }
}


/// Nested folds with several imported tags: a fold importing a root tag, a nested fold importing a tag
/// of its own, and the root tag used AGAIN after the nested fold (later edge filter, count filter of a
/// later nested fold, a second nested fold): tie + specification oracle + panic oracle.
pub fn run_nested_imports(seed: u64, n: usize, out: &mut Out) {
    let mut rng = Rng::new(seed ^ 0x1a95);
    let schema = world::schema();
    for i in 0..n {
        let mut r2 = rng.fork();
        let root = *r2.pick(&["Thing", "Item", "Box"]);
        let e1 = *r2.pick(&["link", "next", "next(hi: 9)"]);
        let e2 = *r2.pick(&["next", "link", "parent"]);
        let e3 = *r2.pick(&["link", "next", "parent"]);
        let op = *r2.pick(&["<=", ">=", "!=", "<"]);
        let after = match r2.range(0, 3) {
            0 => format!("{e3} @optional {{ id @filter(op: \"!=\", value: [\"%a\"]) @output(name: \"y\") }}"),
            1 => format!("{e3} @fold @transform(op: \"count\") @filter(op: \">=\", value: [\"%a\"]) @output(name: \"c\")"),
            2 => format!("{e3} @fold {{ id @filter(op: \"{op}\", value: [\"%a\"]) @output(name: \"y\") }}"),
            _ => format!("{e3} {{ id @filter(op: \"{op}\", value: [\"%a\"]) @output(name: \"y\") }}"),
        };
        let text = format!(
            "query {{ {root} {{ id @tag(name: \"a\") @output(name: \"r\") {e1} @fold {{ id @tag(name: \"b\") @filter(op: \">=\", value: [\"%a\"]) @output(name: \"m\") {e2} @fold {{ id @filter(op: \"{op}\", value: [\"%b\"]) @output(name: \"x\") }} {after} }} }} }}");
        let indexed = match parse(&schema, &text) {
            Ok(ix) => ix,
            Err(_) => {
                out.count("nested-imports:template-rejected");
                continue;
            }
        };
        out.count("family:nested-imports");
        let c = EngineCase {
            dataset: world::gen_dataset(&mut r2, 8),
            query_text: text.clone(),
            indexed,
            args: Arc::new(BTreeMap::new()),
            features: Default::default(),
            var_hints: Default::default(),
        };
        let o = run_impl(&c);
        let imp = show_outcome(&o);
        let nontrivial = matches!(&o, Outcome::Rows(r) if !r.is_empty());
        let input = case_input_json(&c);
        let coq_args = case_coq_args(&c);
        if let Outcome::Panic(m) = &o {
            out.oracle_fail("executing an accepted query panicked", input.clone(), json!({"panic": m.chars().take(300).collect::<String>()}));
        }
        out.add(Case { input: input.clone(), coq: format!("run_exec {coq_args}"), imp: imp.clone(), nontrivial, key: format!("ni{i}:{text}") });
        out.add_spec(Case { input, coq: format!("run_sem {coq_args}"), imp, nontrivial, key: format!("sni{i}:{text}") }, None);
    }
}


/// A @fold with outputs evaluated BEFORE a @recurse edge of the same component (recursed vertices with
/// several neighbours must keep the fold's outputs), also with the fold after the recursion.
pub fn run_fold_then_recurse(seed: u64, n: usize, out: &mut Out) {
    let mut rng = Rng::new(seed ^ 0xf01d);
    let schema = world::schema();
    for i in 0..n {
        let mut r2 = rng.fork();
        let root = *r2.pick(&["Thing", "Item", "Box", "Gadget"]);
        let ef = *r2.pick(&["link", "next", "next(hi: 9)"]);
        let er = *r2.pick(&["next", "link", "parent"]);
        let d = r2.range(1, 3);
        let fold = match r2.range(0, 2) {
            0 => format!("{ef} @fold @transform(op: \"count\") @output(name: \"c\") {{ id @output(name: \"f\") }}"),
            1 => format!("{ef} @fold {{ id @output(name: \"f\") link @fold @transform(op: \"count\") @output(name: \"c\") }}"),
            _ => format!("{ef} @fold @transform(op: \"count\") @output(name: \"c\")"),
        };
        let rec = format!("{er} @recurse(depth: {d}) {{ id @output(name: \"m\") }}");
        let text = if r2.chance(2, 3) {
            format!("query {{ {root} {{ id @output(name: \"r\") {fold} {rec} }} }}")
        } else {
            format!("query {{ {root} {{ id @output(name: \"r\") {rec} {fold} }} }}")
        };
        let indexed = match parse(&schema, &text) {
            Ok(ix) => ix,
            Err(_) => {
                out.count("fold-then-recurse:template-rejected");
                continue;
            }
        };
        out.count("family:fold-then-recurse");
        let c = EngineCase {
            dataset: world::gen_dataset(&mut r2, 8),
            query_text: text.clone(),
            indexed,
            args: Arc::new(BTreeMap::new()),
            features: Default::default(),
            var_hints: Default::default(),
        };
        let o = run_impl(&c);
        let imp = show_outcome(&o);
        let nontrivial = matches!(&o, Outcome::Rows(r) if !r.is_empty());
        let input = case_input_json(&c);
        let coq_args = case_coq_args(&c);
        if let Outcome::Panic(m) = &o {
            out.oracle_fail("executing an accepted query panicked", input.clone(), json!({"panic": m.chars().take(300).collect::<String>()}));
        }
        out.add(Case { input: input.clone(), coq: format!("run_exec {coq_args}"), imp: imp.clone(), nontrivial, key: format!("fr{i}:{text}") });
        out.add_spec(Case { input, coq: format!("run_sem {coq_args}"), imp, nontrivial, key: format!("sfr{i}:{text}") }, None);
    }
}


/// Folds under @optional scopes inside folds (the defaults compute_fold fills in for nested folds whose
/// scope does not exist), three levels deep, with property and count outputs.
pub fn run_optional_nested_folds(seed: u64, n: usize, out: &mut Out) {
    let mut rng = Rng::new(seed ^ 0x0b7f);
    let schema = world::schema();
    for i in 0..n {
        let mut r2 = rng.fork();
        let root = *r2.pick(&["Thing", "Item", "Box", "Gadget"]);
        let e1 = *r2.pick(&["link", "next", "next(hi: 9)"]);
        let e2 = *r2.pick(&["parent", "next(lo: 7)", "next(hi: 2)", "link"]);
        let e3 = *r2.pick(&["next", "link", "parent"]);
        let inner = match r2.range(0, 2) {
            0 => format!("{e3} @fold {{ id @output(name: \"z\") }}"),
            1 => format!("{e3} @fold @transform(op: \"count\") @output(name: \"c\")"),
            _ => format!("{e3} @fold @transform(op: \"count\") @output(name: \"c\") {{ id @output(name: \"z\") link @fold {{ id @output(name: \"w\") }} }}"),
        };
        let text = match r2.range(0, 2) {
            0 => format!("query {{ {root} {{ id @output(name: \"r\") {e1} @fold {{ id @output(name: \"m\") {e2} @optional {{ {inner} }} }} }} }}"),
            1 => format!("query {{ {root} {{ id @output(name: \"r\") {e2} @optional {{ {e1} @fold {{ id @output(name: \"m\") {inner} }} }} }} }}"),
            _ => format!("query {{ {root} {{ id @output(name: \"r\") {e1} @fold {{ {e2} @optional {{ id @output(name: \"m\") {inner} }} }} }} }}"),
        };
        let indexed = match parse(&schema, &text) {
            Ok(ix) => ix,
            Err(_) => {
                out.count("optional-nested-folds:template-rejected");
                continue;
            }
        };
        out.count("family:optional-nested-folds");
        let c = EngineCase {
            dataset: world::gen_dataset(&mut r2, 8),
            query_text: text.clone(),
            indexed,
            args: Arc::new(BTreeMap::new()),
            features: Default::default(),
            var_hints: Default::default(),
        };
        let o = run_impl(&c);
        let imp = show_outcome(&o);
        let nontrivial = matches!(&o, Outcome::Rows(r) if !r.is_empty());
        let input = case_input_json(&c);
        let coq_args = case_coq_args(&c);
        if let Outcome::Panic(m) = &o {
            out.oracle_fail("executing an accepted query panicked", input.clone(), json!({"panic": m.chars().take(300).collect::<String>()}));
        }
        out.add(Case { input: input.clone(), coq: format!("run_exec {coq_args}"), imp: imp.clone(), nontrivial, key: format!("on{i}:{text}") });
        out.add_spec(Case { input, coq: format!("run_sem {coq_args}"), imp, nontrivial, key: format!("son{i}:{text}") }, None);
    }
}
