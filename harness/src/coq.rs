//! Printers producing Gallina literals for the model (coq/theories).
use trustfall_core::ir::FieldValue;

/// A Coq `string` term for arbitrary bytes.
pub fn cstr(s: &str) -> String {
    if s.bytes().all(|b| (0x20..=0x7e).contains(&b)) {
        format!("\"{}\"", s.replace('"', "\"\""))
    } else {
        let parts: Vec<String> = s.bytes().map(|b| b.to_string()).collect();
        format!("(sb [{}]%N)", parts.join(";"))
    }
}

pub fn cz(z: i128) -> String {
    if z < 0 { format!("({z})%Z") } else { format!("{z}%Z") }
}

pub fn cbool(b: bool) -> &'static str {
    if b { "true" } else { "false" }
}

pub fn clist(items: &[String]) -> String {
    format!("[{}]", items.join("; "))
}

pub fn copt(o: Option<String>) -> String {
    match o {
        Some(s) => format!("(Some {s})"),
        None => "None".into(),
    }
}

pub fn cfv(v: &FieldValue) -> String {
    match v {
        FieldValue::Null => "Null".into(),
        FieldValue::Int64(i) => format!("(I64 {})", cz(*i as i128)),
        FieldValue::Uint64(u) => format!("(U64 {})", cz(*u as i128)),
        FieldValue::Float64(f) => format!("(F64 {}%N)", f.to_bits()),
        FieldValue::String(s) => format!("(Str {})", cstr(s)),
        FieldValue::Boolean(b) => format!("(Boolv {})", cbool(*b)),
        FieldValue::Enum(s) => format!("(Enum {})", cstr(s)),
        FieldValue::List(l) => {
            let parts: Vec<String> = l.iter().map(cfv).collect();
            format!("(List {})", clist(&parts))
        }
        _ => panic!("unknown FieldValue variant"),
    }
}
