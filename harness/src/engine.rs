//! Engine-level cases: world + query + arguments, run through the real frontend and interpreter.
use crate::coq::{clist, cstr};
use crate::irprint;
use crate::qgen::{gen_args, QGen, VarHint};
use crate::rng::Rng;
use crate::show::show_fv;
use crate::world::*;
use serde_json::{json, Value};
use std::collections::{BTreeMap, BTreeSet};
use std::panic::{catch_unwind, AssertUnwindSafe};
use std::sync::Arc;
use trustfall_core::frontend::parse;
use trustfall_core::interpreter::execution::interpret_ir;
use trustfall_core::interpreter::Adapter;
use trustfall_core::ir::{FieldValue, IndexedQuery};
use trustfall_core::schema::Schema;

pub type Row = BTreeMap<Arc<str>, FieldValue>;

pub struct EngineCase {
    pub dataset: Dataset,
    pub query_text: String,
    pub indexed: Arc<IndexedQuery>,
    pub args: Arc<BTreeMap<Arc<str>, FieldValue>>,
    pub features: BTreeSet<String>,
    pub var_hints: BTreeMap<String, VarHint>,
}

pub enum Outcome {
    Rows(Vec<Row>),
    ArgError(String),
    Panic(String),
}

pub fn show_row(r: &Row) -> String {
    let parts: Vec<String> = r.iter().map(|(k, v)| format!("{}={}", k, show_fv(v))).collect();
    parts.join(";")
}

pub fn show_outcome(o: &Outcome) -> String {
    match o {
        Outcome::Rows(rows) => {
            let parts: Vec<String> = rows.iter().map(show_row).collect();
            format!("ROWS:{}", parts.join("|"))
        }
        Outcome::ArgError(_) => "ARGERR".to_string(),
        Outcome::Panic(_) => "PANIC".to_string(),
    }
}

fn panic_msg(e: Box<dyn std::any::Any + Send>) -> String {
    if let Some(s) = e.downcast_ref::<&str>() {
        s.to_string()
    } else if let Some(s) = e.downcast_ref::<String>() {
        s.clone()
    } else {
        "<non-string panic>".to_string()
    }
}

/// Run the real interpreter to completion with the given adapter.
pub fn run_with<A>(adapter: Arc<A>, q: Arc<IndexedQuery>, args: Arc<BTreeMap<Arc<str>, FieldValue>>) -> Outcome
where
    A: Adapter<'static> + 'static,
{
    let r = catch_unwind(AssertUnwindSafe(|| match interpret_ir(adapter, q, args) {
        Ok(it) => Outcome::Rows(it.collect()),
        Err(e) => Outcome::ArgError(format!("{e:?}")),
    }));
    match r {
        Ok(o) => o,
        Err(e) => Outcome::Panic(panic_msg(e)),
    }
}

pub fn run_impl(c: &EngineCase) -> Outcome {
    run_with(Arc::new(GraphAdapter::new(c.dataset.clone())), c.indexed.clone(), c.args.clone())
}

pub struct GenStats {
    pub generated: u64,
    pub frontend_rejected: u64,
    pub frontend_panicked: u64,
    pub reject_kinds: BTreeMap<String, u64>,
}

/// Generates (dataset, query, args) until the real frontend accepts one.  Rejections are counted.
pub fn gen_case(rng: &mut Rng, schema: &Schema, stats: &mut GenStats, known_defects: u32) -> EngineCase {
    loop {
        stats.generated += 1;
        let mut r2 = rng.fork();
        let dataset = gen_dataset(&mut r2, 10);
        let mut g = QGen::new(&mut r2);
        g.p_known_defects = known_defects;
        let go = g.gen_query();
        let parsed = catch_unwind(AssertUnwindSafe(|| parse(schema, &go.text)));
        match parsed {
            Err(e) => {
                stats.frontend_panicked += 1;
                // remember (message, query) so that callers can report frontend panics outside the known classes
                let msg = panic_msg(e);
                *stats.reject_kinds.entry(format!("PANIC|{}|{}", msg.chars().take(160).collect::<String>(), go.text)).or_insert(0) += 1;
                continue;
            }
            Ok(Err(e)) => {
                stats.frontend_rejected += 1;
                let k = format!("{e:?}");
                let k = k.split(|c: char| c == '(' || c == '{' || c == ' ').next().unwrap_or("?").to_string();
                *stats.reject_kinds.entry(k).or_insert(0) += 1;
                continue;
            }
            Ok(Ok(indexed)) => {
                let pool = crate::qgen::value_pool(&dataset);
                let args = gen_args(&mut r2, &indexed.ir_query.variables, &go.var_hints, known_defects, &pool);
                return EngineCase {
                    dataset,
                    query_text: go.text,
                    indexed,
                    args: Arc::new(args),
                    features: go.features,
                    var_hints: go.var_hints,
                };
            }
        }
    }
}

fn collect_strings(v: &FieldValue, out: &mut BTreeSet<String>) {
    match v {
        FieldValue::String(s) => {
            out.insert(s.to_string());
        }
        FieldValue::List(l) => {
            for x in l.iter() {
                collect_strings(x, out);
            }
        }
        _ => {}
    }
}

/// The regex oracle for the model, as a finite table over every string that can reach a regex
/// operator in this case (property values and arguments), computed with the real `regex` crate.
pub fn regex_table(c: &EngineCase) -> String {
    let uses_regex = c.features.contains("op:regex") || c.features.contains("op:not_regex");
    if !uses_regex {
        return "(re_table [] [])".to_string();
    }
    let mut strs = BTreeSet::new();
    strs.insert(String::new());
    for pm in c.dataset.props.values() {
        for v in pm.values() {
            collect_strings(v, &mut strs);
        }
    }
    for v in c.args.values() {
        collect_strings(v, &mut strs);
    }
    let mut bad = vec![];
    let mut hits = vec![];
    for p in &strs {
        match regex::Regex::new(p) {
            Err(_) => bad.push(cstr(p)),
            Ok(re) => {
                for s in &strs {
                    if re.is_match(s) {
                        hits.push(format!("({}, {})", cstr(p), cstr(s)));
                    }
                }
            }
        }
    }
    format!("(re_table {} {})", clist(&bad), clist(&hits))
}

pub fn case_input_json(c: &EngineCase) -> Value {
    json!({
        "query": c.query_text,
        "args": c.args.iter().map(|(k, v)| (k.to_string(), show_fv(v))).collect::<BTreeMap<_, _>>(),
        "dataset": c.dataset.to_json(),
    })
}

/// Gallina arguments `re d rq args` shared by run_exec / run_sem.
pub fn case_coq_args(c: &EngineCase) -> String {
    format!(
        "{} {} {} {}",
        regex_table(c),
        c.dataset.to_coq(),
        irprint::query(&c.indexed.ir_query),
        irprint::args(&c.args)
    )
}

// ---------------------------------------------------------------- known-defect classes (by input)

fn filters_of_component<'a>(
    comp: &'a trustfall_core::ir::IRQueryComponent,
    f: &mut dyn FnMut(&'a trustfall_core::ir::IRQueryComponent),
) {
    f(comp);
    for fold in comp.folds.values() {
        filters_of_component(&fold.component, f);
    }
}

/// K-regex-invalid (F4): some regex / not_regex filter has a variable operand whose argument does
/// not compile as a regex.
pub fn class_regex_invalid(c: &EngineCase) -> bool {
    use trustfall_core::ir::{Argument, Operation};
    let mut hit = false;
    filters_of_component(&c.indexed.ir_query.root_component, &mut |comp| {
        for v in comp.vertices.values() {
            for f in &v.filters {
                if let Operation::RegexMatches(_, Argument::Variable(var)) | Operation::NotRegexMatches(_, Argument::Variable(var)) = f {
                    if let Some(FieldValue::String(s)) = c.args.get(&var.variable_name) {
                        if regex::Regex::new(s).is_err() {
                            hit = true;
                        }
                    }
                }
            }
        }
    });
    hit
}

/// K-list-ordering (F5): an ordering operator is applied to a list-typed property.
pub fn class_list_ordering(c: &EngineCase) -> bool {
    use trustfall_core::ir::Operation;
    let mut hit = false;
    filters_of_component(&c.indexed.ir_query.root_component, &mut |comp| {
        for v in comp.vertices.values() {
            for f in &v.filters {
                if let Operation::LessThan(l, _)
                | Operation::LessThanOrEqual(l, _)
                | Operation::GreaterThan(l, _)
                | Operation::GreaterThanOrEqual(l, _) = f
                {
                    if l.field_type.is_list() {
                        hit = true;
                    }
                }
            }
        }
    });
    hit
}

pub fn engine_class(c: &EngineCase) -> Option<String> {
    if class_regex_invalid(c) {
        return Some("K-regex-invalid".to_string());
    }
    if class_list_ordering(c) {
        return Some("K-list-ordering".to_string());
    }
    None
}

