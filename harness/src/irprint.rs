//! Walks the real IR (public fields of trustfall_core::ir) and prints it as a Gallina `raw_query`.
use crate::coq::{cbool, cfv, clist, copt, cstr};
use trustfall_core::ir::*;

pub fn cty(t: &Type) -> String {
    format!("(mkTy {} {}%N)", cstr(t.base_type()), t.__verif_mask())
}

fn vid(v: Vid) -> String {
    format!("{}%N", serde_json::to_string(&v).unwrap())
}
fn eid(e: Eid) -> String {
    format!("{}%N", serde_json::to_string(&e).unwrap())
}
pub fn vid_n(v: Vid) -> u64 {
    serde_json::to_string(&v).unwrap().parse().unwrap()
}
pub fn eid_n(e: Eid) -> u64 {
    serde_json::to_string(&e).unwrap().parse().unwrap()
}

pub fn opk<L, R>(op: &Operation<L, R>) -> &'static str
where
    L: std::fmt::Debug + Clone + PartialEq + Eq,
    R: std::fmt::Debug + Clone + PartialEq + Eq,
{
    match op {
        Operation::IsNull(..) => "IsNull",
        Operation::IsNotNull(..) => "IsNotNull",
        Operation::Equals(..) => "Equals",
        Operation::NotEquals(..) => "NotEquals",
        Operation::LessThan(..) => "LessThan",
        Operation::LessThanOrEqual(..) => "LessThanOrEqual",
        Operation::GreaterThan(..) => "GreaterThan",
        Operation::GreaterThanOrEqual(..) => "GreaterThanOrEqual",
        Operation::Contains(..) => "Contains",
        Operation::NotContains(..) => "NotContains",
        Operation::OneOf(..) => "OneOf",
        Operation::NotOneOf(..) => "NotOneOf",
        Operation::HasPrefix(..) => "HasPrefix",
        Operation::NotHasPrefix(..) => "NotHasPrefix",
        Operation::HasSuffix(..) => "HasSuffix",
        Operation::NotHasSuffix(..) => "NotHasSuffix",
        Operation::HasSubstring(..) => "HasSubstring",
        Operation::NotHasSubstring(..) => "NotHasSubstring",
        Operation::RegexMatches(..) => "RegexMatches",
        Operation::NotRegexMatches(..) => "NotRegexMatches",
        _ => panic!("unknown Operation variant"),
    }
}

fn op_parts<L, R>(op: &Operation<L, R>) -> (&L, Option<&R>)
where
    L: std::fmt::Debug + Clone + PartialEq + Eq,
    R: std::fmt::Debug + Clone + PartialEq + Eq,
{
    match op {
        Operation::IsNull(l) | Operation::IsNotNull(l) => (l, None),
        Operation::Equals(l, r)
        | Operation::NotEquals(l, r)
        | Operation::LessThan(l, r)
        | Operation::LessThanOrEqual(l, r)
        | Operation::GreaterThan(l, r)
        | Operation::GreaterThanOrEqual(l, r)
        | Operation::Contains(l, r)
        | Operation::NotContains(l, r)
        | Operation::OneOf(l, r)
        | Operation::NotOneOf(l, r)
        | Operation::HasPrefix(l, r)
        | Operation::NotHasPrefix(l, r)
        | Operation::HasSuffix(l, r)
        | Operation::NotHasSuffix(l, r)
        | Operation::HasSubstring(l, r)
        | Operation::NotHasSubstring(l, r)
        | Operation::RegexMatches(l, r)
        | Operation::NotRegexMatches(l, r) => (l, Some(r)),
        _ => panic!("unknown Operation variant"),
    }
}

fn ctxfield(c: &ContextField) -> String {
    format!("(mkCF {} {} {})", vid(c.vertex_id), cstr(&c.field_name), cty(&c.field_type))
}

pub fn fieldref(f: &FieldRef) -> String {
    match f {
        FieldRef::ContextField(c) => format!("(FRContext {})", ctxfield(c)),
        FieldRef::FoldSpecificField(ff) => {
            format!("(FRFold (mkFF {} {}))", eid(ff.fold_eid), vid(ff.fold_root_vid))
        }
        _ => panic!("unknown FieldRef variant"),
    }
}

fn argument(a: &Argument) -> String {
    match a {
        Argument::Tag(f) => format!("(ATag {})", fieldref(f)),
        Argument::Variable(v) => format!("(AVar {} {})", cstr(&v.variable_name), cty(&v.variable_type)),
    }
}

fn params(p: &EdgeParameters) -> String {
    let items: Vec<String> = p.iter().map(|(k, v)| format!("({}, {})", cstr(k), cfv(v))).collect();
    clist(&items)
}

fn vertex(v: &IRVertex) -> String {
    let fs: Vec<String> = v
        .filters
        .iter()
        .map(|f| {
            let (l, r) = op_parts(f);
            format!(
                "(mkVF {} {} {} {})",
                opk(f),
                cstr(&l.field_name),
                cty(&l.field_type),
                copt(r.map(argument))
            )
        })
        .collect();
    format!(
        "(mkV {} {} {} {})",
        vid(v.vid),
        cstr(&v.type_name),
        copt(v.coerced_from_type.as_ref().map(|s| cstr(s))),
        clist(&fs)
    )
}

fn edge(e: &IREdge) -> String {
    let rec = e.recursive.as_ref().map(|r| {
        format!("(mkRec {}%N {})", r.depth, copt(r.coerce_to.as_ref().map(|s| cstr(s))))
    });
    format!(
        "(mkE {} {} {} {} {} {} {})",
        eid(e.eid),
        vid(e.from_vid),
        vid(e.to_vid),
        cstr(&e.edge_name),
        params(&e.parameters),
        cbool(e.optional),
        copt(rec)
    )
}

fn fold(f: &IRFold) -> String {
    let imported: Vec<String> = f.imported_tags.iter().map(fieldref).collect();
    let fsout: Vec<String> = f.fold_specific_outputs.keys().map(|k| cstr(k)).collect();
    let post: Vec<String> = f
        .post_filters
        .iter()
        .map(|pf| {
            let (_, r) = op_parts(pf);
            format!("(mkPF {} {})", opk(pf), copt(r.map(argument)))
        })
        .collect();
    format!(
        "(RFold (mkFH {} {} {} {} {} {} {} {}) {})",
        eid(f.eid),
        vid(f.from_vid),
        vid(f.to_vid),
        cstr(&f.edge_name),
        params(&f.parameters),
        clist(&imported),
        clist(&fsout),
        clist(&post),
        component(&f.component)
    )
}

pub fn component(c: &IRQueryComponent) -> String {
    let vs: Vec<String> = c.vertices.values().map(vertex).collect();
    let es: Vec<String> = c.edges.values().map(|e| edge(e)).collect();
    let fs: Vec<String> = c.folds.values().map(|f| fold(f)).collect();
    let outs: Vec<String> = c.outputs.iter().map(|(k, cf)| format!("({}, {})", cstr(k), ctxfield(cf))).collect();
    format!("(RComp {} {} {} {} {})", vid(c.root), clist(&vs), clist(&es), clist(&fs), clist(&outs))
}

pub fn query(q: &IRQuery) -> String {
    let vars: Vec<String> = q.variables.iter().map(|(k, t)| format!("({}, {})", cstr(k), cty(t))).collect();
    format!(
        "(mkRQ {} {} {} {})",
        cstr(&q.root_name),
        params(&q.root_parameters),
        component(&q.root_component),
        clist(&vars)
    )
}

pub fn args(a: &std::collections::BTreeMap<std::sync::Arc<str>, FieldValue>) -> String {
    let items: Vec<String> = a.iter().map(|(k, v)| format!("({}, {})", cstr(k), cfv(v))).collect();
    clist(&items)
}
