//! tfh — correspondence harness for the trustfall Coq development.
//! usage: tfh <subcommand> --seed S --n N --out DIR
mod c01;
mod c06;
mod c07;
mod c08;
mod c17;
mod c22;
mod coq;
mod engine;
mod irprint;
mod out;
mod qgen;
mod rng;
mod show;
mod world;

use std::path::PathBuf;

pub struct Args {
    pub seed: u64,
    pub n: usize,
    pub out: PathBuf,
    pub rest: Vec<String>,
}

fn parse_args(v: &[String]) -> Args {
    let mut a = Args { seed: 0, n: 100, out: PathBuf::from("."), rest: vec![] };
    let mut i = 0;
    while i < v.len() {
        match v[i].as_str() {
            "--seed" => { a.seed = v[i + 1].parse().unwrap(); i += 2; }
            "--n" => { a.n = v[i + 1].parse().unwrap(); i += 2; }
            "--out" => { a.out = PathBuf::from(&v[i + 1]); i += 2; }
            _ => { a.rest.push(v[i].clone()); i += 1; }
        }
    }
    a
}

fn main() {
    let argv: Vec<String> = std::env::args().collect();
    if argv.len() < 2 {
        eprintln!("usage: tfh <subcommand> [--seed S] [--n N] [--out DIR]");
        std::process::exit(2);
    }
    let args = parse_args(&argv[2..]);
    // panics inside the implementation are caught where a property is about them; keep the
    // default hook quiet so logs stay readable
    std::panic::set_hook(Box::new(|_| {}));
    match argv[1].as_str() {
        "exec" => {
            // engine tie only (Exec model vs interpret_ir)
            let mut o = out::Out::new(&args.out, "From TF Require Import Run.", 60);
            c01::run(args.seed, args.n, &mut o, false, 3, false);
            o.finish();
        }
        "c07" => {
            let mut o = out::Out::new(&args.out, "From TF Require Import Values Show Ops.", 1500);
            c07::run(args.seed, args.n, args.rest.iter().any(|x| x == "--oracle-only"), &mut o);
            o.finish();
        }
        "c01" => {
            // Exec model vs interpret_ir (tie) and Sem specification vs interpret_ir (oracle)
            let mut o = out::Out::new(&args.out, "From TF Require Import Run RunHyps.", 40);
            c01::run(args.seed, args.n, &mut o, true, 3, false);
            // a slice of the fold-count template family (C22): early termination is part of "the rows"
            c22::run(args.seed ^ 0x22, (args.n / 8).max(10), &mut o);
            // deep recursion (implicit coercion at depth >= 3) is rare in the grammar-generated stream
            c22::run_deep_recursion(args.seed, (args.n / 10).max(20), &mut o);
            c22::run_nested_imports(args.seed, (args.n / 10).max(20), &mut o);
            c22::run_fold_then_recurse(args.seed, (args.n / 10).max(20), &mut o);
            c22::run_optional_nested_folds(args.seed, (args.n / 10).max(20), &mut o);
            o.finish();
        }
        "c06" => {
            let mut o = out::Out::new(&args.out, "From TF Require Import Values Show Cand.", 1500);
            c06::run(args.seed, args.n, args.rest.iter().any(|x| x == "--oracle-only"), &mut o);
            o.finish();
        }
        "c09" => {
            // panic-freedom: Exec model's ROWS/PANIC prediction vs catch_unwind(interpret_ir)
            let mut o = out::Out::new(&args.out, "From TF Require Import Run RunNp.", 60);
            c01::run(args.seed, args.n, &mut o, false, 15, true);
            c22::run_deep_recursion(args.seed, (args.n / 10).max(20), &mut o);
            c22::run_nested_imports(args.seed, (args.n / 10).max(20), &mut o);
            c22::run_fold_then_recurse(args.seed, (args.n / 10).max(20), &mut o);
            c22::run_optional_nested_folds(args.seed, (args.n / 10).max(20), &mut o);
            o.finish();
        }
        "c22" => {
            let mut o = out::Out::new(&args.out, "From TF Require Import Run RunHyps.", 60);
            c22::run(args.seed, args.n, &mut o);
            o.finish();
        }
        "c08" => {
            let mut o = out::Out::new(&args.out, "From TF Require Import Values Show.", 1500);
            c08::run(args.seed, args.n, &mut o);
            o.finish();
        }
        "c17" => {
            let mut o = out::Out::new(&args.out, "From TF Require Import Values Show Ty.", 1500);
            c17::run(args.seed, args.n, &mut o);
            o.finish();
        }
        "c16ty" => {
            let mut o = out::Out::new(&args.out, "From TF Require Import Values Show Ty.", 1500);
            c17::run_c16ty(args.seed, args.n, &mut o);
            o.finish();
        }
        other => {
            eprintln!("unknown subcommand {other}");
            std::process::exit(2);
        }
    }
}
