//! Case writer: one `cases_<k>.v` per shard for the model, `impl.jsonl` for the implementation.
use serde_json::{json, Value};
use std::collections::BTreeMap;
use std::fs;
use std::io::Write;
use std::path::{Path, PathBuf};

pub struct Case {
    pub input: Value,     // human-readable replayable description of the input
    pub coq: String,      // Gallina expression of type `string`: the model's rendering
    pub imp: String,      // the implementation's rendering
    pub nontrivial: bool, // by the property's rule
    pub key: String,      // distinctness key
}

pub struct Out {
    dir: PathBuf,
    imports: String,
    shard_size: usize,
    cases: Vec<Case>,
    /// per case: ("tie" | "oracle", known-defect class of the input if any)
    meta: Vec<(&'static str, Option<String>)>,
    pub oracle_failures: Vec<Value>,
    pub hist: BTreeMap<String, u64>,
    pub extra: BTreeMap<String, Value>,
}

impl Out {
    pub fn new(dir: &Path, imports: &str, shard_size: usize) -> Self {
        fs::create_dir_all(dir).unwrap();
        Out {
            dir: dir.to_path_buf(),
            imports: imports.to_string(),
            shard_size,
            cases: vec![],
            meta: vec![],
            oracle_failures: vec![],
            hist: BTreeMap::new(),
            extra: BTreeMap::new(),
        }
    }
    /// A correspondence case: the Gallina expression is the MODEL of the implementation.
    pub fn add(&mut self, c: Case) {
        self.cases.push(c);
        self.meta.push(("tie", None));
    }
    /// A specification case: the Gallina expression is the property's SPEC, so a mismatch is a
    /// violation of the property on this input (`class`: known-defect class of the input, if any).
    pub fn add_spec(&mut self, c: Case, class: Option<String>) {
        self.cases.push(c);
        self.meta.push(("oracle", class));
    }
    /// An informational case: the model's answer is tallied into the evidence, never compared.
    pub fn add_info(&mut self, c: Case) {
        self.cases.push(c);
        self.meta.push(("info", None));
    }
    pub fn count(&mut self, k: &str) {
        *self.hist.entry(k.to_string()).or_insert(0) += 1;
    }
    pub fn count_n(&mut self, k: &str, n: u64) {
        *self.hist.entry(k.to_string()).or_insert(0) += n;
    }
    /// A direct failure of the property on the implementation (independent of the model).
    pub fn oracle_fail(&mut self, what: &str, input: Value, detail: Value) {
        self.oracle_failures.push(json!({"what": what, "input": input, "detail": detail, "class": Value::Null}));
    }
    /// Same, for a failure whose *input* lies in a named class (see known_findings.json).
    pub fn oracle_fail_class(&mut self, class: &str, what: &str, input: Value, detail: Value) {
        self.oracle_failures.push(json!({"what": what, "input": input, "detail": detail, "class": class}));
    }
    pub fn len(&self) -> usize {
        self.cases.len()
    }
    pub fn finish(self) {
        let mut imp = fs::File::create(self.dir.join("impl.jsonl")).unwrap();
        let mut shard = 0usize;
        let mut gidx = 0usize;
        for (k, chunk) in self.cases.chunks(self.shard_size.max(1)).enumerate() {
            shard = k + 1;
            let mut f = fs::File::create(self.dir.join(format!("cases_{k}.v"))).unwrap();
            writeln!(f, "{}", self.imports).unwrap();
            writeln!(f, "Set Printing Width 1000000000.\nSet Printing Depth 1000000000.\nOpen Scope string_scope.").unwrap();
            writeln!(f, "Definition results : list string := [").unwrap();
            for (i, c) in chunk.iter().enumerate() {
                let sep = if i + 1 == chunk.len() { "" } else { ";" };
                writeln!(f, "  ({}){}", c.coq, sep).unwrap();
                let line = json!({"shard": k, "idx": i, "input": c.input, "impl": c.imp,
                                  "nontrivial": c.nontrivial, "key": c.key,
                                  "kind": self.meta[gidx].0, "class": self.meta[gidx].1});
                gidx += 1;
                writeln!(imp, "{}", line).unwrap();
            }
            writeln!(f, "].\nEval vm_compute in results.").unwrap();
        }
        let summary = json!({
            "cases": self.cases.len(),
            "shards": shard,
            "oracle_failures": self.oracle_failures,
            "hist": self.hist,
            "extra": self.extra,
        });
        fs::write(self.dir.join("summary.json"), serde_json::to_string_pretty(&summary).unwrap()).unwrap();
    }
}
