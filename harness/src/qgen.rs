//! Grammar-directed generator of trustfall queries over the world schema (world.rs).
//! Mostly-valid by construction; whatever the real frontend rejects is counted and skipped.
use crate::rng::Rng;
use crate::world::*;
use std::collections::{BTreeMap, BTreeSet};
use std::sync::Arc;
use trustfall_core::ir::{FieldValue, Type};

#[derive(Clone, Debug)]
struct TagInfo {
    name: String,
    ty: String,       // GraphQL type text of the tagged field ("Int!" for a fold count)
    path: Vec<usize>, // component path (fold nesting) where it is defined
    def_vid: usize,   // vid at which it is defined (fold root vid for counts)
    is_count: bool,
}

#[derive(Clone, Debug, PartialEq, Eq)]
pub enum VarHint {
    Plain,
    Regex,
    Count,
}

pub struct GenOut {
    pub text: String,
    pub var_hints: BTreeMap<String, VarHint>,
    pub features: BTreeSet<String>,
}

pub struct QGen<'a> {
    rng: &'a mut Rng,
    out_ctr: usize,
    tag_ctr: usize,
    var_ctr: usize,
    next_vid: usize,
    next_fold: usize,
    tags: Vec<TagInfo>,
    used_tags: BTreeSet<String>,
    var_hints: BTreeMap<String, VarHint>,
    features: BTreeSet<String>,
    outputs: usize,
    pub max_depth: usize,
    /// probability knobs (out of 100)
    pub p_known_defects: u32,
}

fn base_of(ty: &str) -> &str {
    ty.trim_matches(|c| c == '[' || c == ']' || c == '!')
}
fn is_list(ty: &str) -> bool {
    ty.trim_end_matches('!').starts_with('[')
}
fn nullable(ty: &str) -> bool {
    !ty.ends_with('!')
}
fn inner_of(ty: &str) -> &str {
    let t = ty.trim_end_matches('!');
    &t[1..t.len() - 1]
}
/// equal ignoring nullability at every level
fn eq_ign_null(a: &str, b: &str) -> bool {
    a.replace('!', "") == b.replace('!', "")
}

impl<'a> QGen<'a> {
    pub fn new(rng: &'a mut Rng) -> Self {
        QGen {
            rng,
            out_ctr: 0,
            tag_ctr: 0,
            var_ctr: 0,
            next_vid: 1,
            next_fold: 1,
            tags: vec![],
            used_tags: BTreeSet::new(),
            var_hints: BTreeMap::new(),
            features: BTreeSet::new(),
            outputs: 0,
            max_depth: 4,
            p_known_defects: 3,
        }
    }

    fn feat(&mut self, f: &str) {
        self.features.insert(f.to_string());
    }

    fn new_var(&mut self, hint: VarHint) -> String {
        // occasionally reuse an existing variable of the same hint (exercises type meets)
        if self.rng.chance(1, 8) {
            let cands: Vec<String> = self.var_hints.iter().filter(|(_, h)| **h == hint).map(|(k, _)| k.clone()).collect();
            if !cands.is_empty() {
                self.feat("var-reuse");
                return self.rng.pick(&cands).clone();
            }
        }
        self.var_ctr += 1;
        let name = format!("v{}", self.var_ctr);
        self.var_hints.insert(name.clone(), hint);
        name
    }

    fn usable_tags(&self, path: &[usize], use_vid: usize, pred: impl Fn(&str) -> bool) -> Vec<TagInfo> {
        self.tags
            .iter()
            .filter(|t| t.path.len() <= path.len() && t.path[..] == path[..t.path.len()] && t.def_vid <= use_vid && pred(&t.ty))
            .cloned()
            .collect()
    }

    /// one @filter directive for a field of type `ty` at vertex `vid`
    fn gen_filter(&mut self, ty: &str, path: &[usize], vid: usize, is_count: bool) -> Option<String> {
        let mut ops: Vec<&str> = vec!["=", "!=", "one_of", "not_one_of"];
        if nullable(ty) {
            ops.push("is_null");
            ops.push("is_not_null");
        }
        let orderable = matches!(base_of(ty), "Int" | "Float" | "String");
        if orderable && !is_list(ty) {
            ops.extend_from_slice(&["<", "<=", ">", ">=", "<", ">="]);
        }
        if orderable && is_list(ty) && self.rng.chance(self.p_known_defects, 100) {
            ops.extend_from_slice(&["<", ">="]);
        }
        if is_list(ty) {
            ops.extend_from_slice(&["contains", "not_contains", "contains"]);
        }
        if base_of(ty) == "String" && !is_list(ty) {
            ops.extend_from_slice(&[
                "has_prefix", "not_has_prefix", "has_suffix", "not_has_suffix", "has_substring",
                "not_has_substring", "regex", "not_regex",
            ]);
        }
        // operators the frontend must REFUSE for this type (string operators on lists or on non-strings,
        // ordering on booleans): a correct frontend rejects the query (counted as frontend-rejected); if it
        // ever accepts one, executing it panics or disagrees with the specification
        if self.rng.chance(self.p_known_defects, 100) {
            if !(base_of(ty) == "String" && !is_list(ty)) {
                ops.extend_from_slice(&["has_prefix", "has_substring", "not_has_suffix", "regex"]);
                self.feat("ill-typed-operator-attempt");
            }
            if base_of(ty) == "Boolean" {
                ops.extend_from_slice(&["<", ">="]);
            }
        }
        if is_count {
            ops = vec!["=", "!=", "<", "<=", ">", ">=", ">", ">=", "<=", "one_of", "not_one_of"];
        }
        let op = *self.rng.pick(&ops);
        self.feat(&format!("op:{op}"));
        if op == "is_null" || op == "is_not_null" {
            return Some(format!("@filter(op: \"{op}\")"));
        }
        // required type of the right operand (ignoring nullability)
        let want: String = match op {
            "contains" | "not_contains" => inner_of(ty).to_string(),
            "one_of" | "not_one_of" => format!("[{}]", ty),
            "has_prefix" | "not_has_prefix" | "has_suffix" | "not_has_suffix" | "has_substring"
            | "not_has_substring" | "regex" | "not_regex" => "String".to_string(),
            _ => ty.to_string(),
        };
        let tag_cands = self.usable_tags(path, vid, |t| eq_ign_null(t, &want));
        if !tag_cands.is_empty() && self.rng.chance(1, 2) {
            let t = self.rng.pick(&tag_cands).clone();
            self.used_tags.insert(t.name.clone());
            if t.path.len() < path.len() {
                self.feat("tag-imported");
                if path.len() - t.path.len() >= 2 {
                    self.feat("tag-imported-2-levels");
                }
            } else if t.def_vid == vid {
                self.feat("tag-local");
            } else {
                self.feat("tag-earlier-vertex");
            }
            if t.is_count {
                self.feat("tag-count");
            }
            return Some(format!("@filter(op: \"{op}\", value: [\"%{}\"])", t.name));
        }
        let hint = if op == "regex" || op == "not_regex" {
            VarHint::Regex
        } else if is_count {
            VarHint::Count
        } else {
            VarHint::Plain
        };
        let v = self.new_var(hint);
        Some(format!("@filter(op: \"{op}\", value: [\"${v}\"])"))
    }

    fn gen_property(&mut self, pr: &PropDef, path: &[usize], vid: usize, ind: &str, out: &mut String) {
        let mut dirs: Vec<String> = vec![];
        let nf = *self.rng.pick(&[0usize, 0, 0, 0, 1, 1, 2]);
        for _ in 0..nf {
            if let Some(f) = self.gen_filter(pr.ty, path, vid, false) {
                dirs.push(f);
            }
        }
        let mut tag_name = None;
        if self.rng.chance(1, 3) {
            self.tag_ctr += 1;
            let name = format!("t{}", self.tag_ctr);
            dirs.push(format!("@tag(name: \"{name}\")"));
            tag_name = Some(name);
        }
        if self.rng.chance(3, 5) || dirs.is_empty() {
            self.out_ctr += 1;
            self.outputs += 1;
            if self.rng.chance(1, 6) && self.out_ctr == 1 {
                dirs.push("@output".to_string());
                self.feat("output-default-name");
            } else {
                dirs.push(format!("@output(name: \"o{}\")", self.out_ctr));
            }
        }
        // directives may come in any order
        if self.rng.chance(1, 3) {
            dirs.reverse();
        }
        out.push_str(&format!("{ind}{} {}\n", pr.name, dirs.join(" ")));
        // a tag becomes usable only after its own field (also by later filters on the same vertex)
        if let Some(name) = tag_name {
            self.tags.push(TagInfo { name, ty: pr.ty.to_string(), path: path.to_vec(), def_vid: vid, is_count: false });
        }
    }

    fn gen_params(&mut self, ps: &[ParamDef]) -> String {
        let mut parts = vec![];
        for p in ps {
            let required = p.ty.ends_with('!') && p.default.is_none();
            if required || self.rng.chance(1, 2) {
                let val = if !p.ty.ends_with('!') && self.rng.chance(1, 5) {
                    "null".to_string()
                } else {
                    self.rng.range(-1, 9).to_string()
                };
                parts.push(format!("{}: {}", p.name, val));
                self.feat("edge-param-explicit");
            } else {
                self.feat("edge-param-default");
            }
        }
        if parts.is_empty() { String::new() } else { format!("({})", parts.join(", ")) }
    }

    /// recursion on edge `ed` from static type `from` is accepted by the frontend in these cases
    fn can_recurse(&self, from: &str, ed: &EdgeDef) -> bool {
        // from must be a subtype of (or equal to) the edge's destination
        subtypes_of(ed.target).contains(&from)
    }

    fn gen_scope(&mut self, ty: &str, depth: usize, path: &[usize], vid: usize, ind: &str, out: &mut String) {
        // type coercion as the only selection
        let subs: Vec<&str> = subtypes_of(ty).into_iter().filter(|s| *s != ty).collect();
        if !subs.is_empty() && self.rng.chance(1, 5) {
            let sub = *self.rng.pick(&subs);
            self.feat("coercion");
            out.push_str(&format!("{ind}... on {sub} {{\n"));
            let ind2 = format!("{ind}  ");
            self.gen_scope_body(sub, depth, path, vid, &ind2, out);
            out.push_str(&format!("{ind}}}\n"));
            return;
        }
        self.gen_scope_body(ty, depth, path, vid, ind, out);
    }

    fn gen_scope_body(&mut self, ty: &str, depth: usize, path: &[usize], vid: usize, ind: &str, out: &mut String) {
        let td = type_def(ty);
        // properties first
        let np = *self.rng.pick(&[1usize, 1, 2, 2, 3]);
        let mut chosen: Vec<usize> = vec![];
        for _ in 0..np {
            let i = self.rng.below(td.props.len());
            if !chosen.contains(&i) {
                chosen.push(i);
            }
        }
        if self.rng.chance(1, 12) {
            self.out_ctr += 1;
            self.outputs += 1;
            out.push_str(&format!("{ind}__typename @output(name: \"o{}\")\n", self.out_ctr));
            self.feat("typename");
        }
        for i in chosen {
            let pr = td.props[i].clone();
            self.gen_property(&pr, path, vid, ind, out);
        }
        if depth == 0 {
            return;
        }
        let ne = *self.rng.pick(&[0usize, 1, 1, 1, 2, 2, 3]);
        for _ in 0..ne {
            let ed = self.rng.pick(&td.edges).clone();
            let params = self.gen_params(&ed.params);
            let ind2 = format!("{ind}  ");
            let kind = self.rng.below(10);
            let to_vid = self.next_vid + 1;
            match kind {
                0..=2 => {
                    self.feat("edge-plain");
                    self.next_vid = to_vid;
                    out.push_str(&format!("{ind}{}{} {{\n", ed.name, params));
                    self.gen_scope(ed.target, depth - 1, path, to_vid, &ind2, out);
                    out.push_str(&format!("{ind}}}\n"));
                }
                3..=4 => {
                    self.feat("edge-optional");
                    self.next_vid = to_vid;
                    out.push_str(&format!("{ind}{}{} @optional {{\n", ed.name, params));
                    self.gen_scope(ed.target, depth - 1, path, to_vid, &ind2, out);
                    out.push_str(&format!("{ind}}}\n"));
                }
                5..=6 if self.can_recurse(ty, &ed) => {
                    let d = self.rng.range(1, 3);
                    self.feat("edge-recurse");
                    self.feat(&format!("recurse-depth-{d}"));
                    if ed.name == "up" {
                        self.feat("recurse-implicit-coercion");
                    }
                    self.next_vid = to_vid;
                    out.push_str(&format!("{ind}{}{} @recurse(depth: {d}) {{\n", ed.name, params));
                    self.gen_scope(ed.target, depth - 1, path, to_vid, &ind2, out);
                    out.push_str(&format!("{ind}}}\n"));
                }
                _ => {
                    // @fold, possibly with count transform
                    self.feat("edge-fold");
                    if path.len() >= 1 {
                        self.feat("fold-nested");
                    }
                    self.next_vid = to_vid;
                    let fold_id = self.next_fold;
                    self.next_fold += 1;
                    let mut dirs = String::from("@fold");
                    let mut count_tag = None;
                    if self.rng.chance(1, 2) {
                        dirs.push_str(" @transform(op: \"count\")");
                        self.feat("fold-count");
                        let mut any = false;
                        let nf = *self.rng.pick(&[0usize, 1, 1, 2]);
                        for _ in 0..nf {
                            // the count is filtered at the parent vertex `vid`, but tags it may use must be
                            // defined before the fold root
                            if let Some(f) = self.gen_filter("Int!", path, vid, true) {
                                dirs.push(' ');
                                dirs.push_str(&f);
                                any = true;
                                self.feat("fold-count-filter");
                            }
                        }
                        if self.rng.chance(1, 3) {
                            self.tag_ctr += 1;
                            let name = format!("t{}", self.tag_ctr);
                            dirs.push_str(&format!(" @tag(name: \"{name}\")"));
                            count_tag = Some(name);
                            any = true;
                            self.feat("fold-count-tag");
                        }
                        if self.rng.chance(1, 2) || !any {
                            self.out_ctr += 1;
                            self.outputs += 1;
                            dirs.push_str(&format!(" @output(name: \"o{}\")", self.out_ctr));
                            self.feat("fold-count-output");
                        }
                    }
                    let mut sub_path = path.to_vec();
                    sub_path.push(fold_id);
                    out.push_str(&format!("{ind}{}{} {dirs} {{\n", ed.name, params));
                    self.gen_scope(ed.target, depth - 1, &sub_path, to_vid, &ind2, out);
                    out.push_str(&format!("{ind}}}\n"));
                    if let Some(name) = count_tag {
                        self.tags.push(TagInfo { name, ty: "Int!".to_string(), path: path.to_vec(), def_vid: to_vid, is_count: true });
                    }
                }
            }
        }
    }

    pub fn gen_query(mut self) -> GenOut {
        let entries = entry_defs();
        let en = &entries[self.rng.below(entries.len())];
        let params = self.gen_params(&en.params);
        let mut body = String::new();
        let depth = self.rng.below(self.max_depth + 1);
        self.gen_scope(en.target, depth, &[], 1, "    ", &mut body);
        if self.outputs == 0 {
            body.push_str("    id @output(name: \"o_id\")\n");
        }
        // unused tags are an error; drop their directives
        let unused: Vec<String> = self.tags.iter().filter(|t| !self.used_tags.contains(&t.name)).map(|t| t.name.clone()).collect();
        let mut text = format!("query {{\n  {}{} {{\n{}  }}\n}}\n", en.name, params, body);
        for name in unused {
            if self.rng.chance(1, 25) {
                continue; // leave an unused tag now and then (frontend error path)
            }
            text = text.replace(&format!(" @tag(name: \"{name}\")"), "");
            text = text.replace(&format!("@tag(name: \"{name}\") "), "");
            text = text.replace(&format!("@tag(name: \"{name}\")"), "");
        }
        GenOut { text, var_hints: self.var_hints, features: self.features }
    }
}

// ------------------------------------------------------------------ arguments

fn gen_scalar(rng: &mut Rng, base: &str, hint: &VarHint, known_defects: u32) -> FieldValue {
    match base {
        "Int" => match hint {
            VarHint::Count => match rng.below(12) {
                0 => FieldValue::Int64(-1),
                1 => FieldValue::Uint64(u64::MAX),
                2 => FieldValue::Int64(i64::MAX),
                3 => FieldValue::Int64(i64::MIN),
                4 => FieldValue::Uint64(rng.below(4) as u64),
                _ => FieldValue::Int64(rng.range(0, 4)),
            },
            _ => match rng.below(12) {
                0 => FieldValue::Int64(i64::MIN),
                1 => FieldValue::Int64(i64::MAX),
                2 => FieldValue::Uint64(u64::MAX),
                3 => FieldValue::Uint64(i64::MAX as u64 + 1),
                4 => FieldValue::Uint64(rng.below(6) as u64),
                5 => FieldValue::Int64(-(rng.below(3) as i64)),
                _ => FieldValue::Int64(rng.range(0, 8)),
            },
        },
        "String" => match hint {
            VarHint::Regex => {
                if rng.chance(known_defects, 100) {
                    FieldValue::String(Arc::from("("))
                } else {
                    FieldValue::String(Arc::from(*rng.pick(&["a", "^a", "a.*", "", "b$", "^$", "[ab]+", "x y"])))
                }
            }
            _ => FieldValue::String(Arc::from(*rng.pick(&["", "a", "ab", "abc", "b", "ba", "A", "a(", "x y", "\u{e9}"]))),
        },
        "Float" => FieldValue::Float64(*rng.pick(&[0.0, -0.0, 1.5, -1.5, 2.0, 1e300, 5e-324])),
        "Boolean" => FieldValue::Boolean(rng.chance(1, 2)),
        _ => FieldValue::Null,
    }
}

pub type Pool = BTreeMap<&'static str, Vec<FieldValue>>;

/// scalar values occurring in a dataset, by base type (so that generated arguments often match)
pub fn value_pool(d: &Dataset) -> Pool {
    fn add(v: &FieldValue, pool: &mut Pool) {
        match v {
            FieldValue::Int64(_) | FieldValue::Uint64(_) => pool.entry("Int").or_default().push(v.clone()),
            FieldValue::String(_) => pool.entry("String").or_default().push(v.clone()),
            FieldValue::Float64(_) => pool.entry("Float").or_default().push(v.clone()),
            FieldValue::Boolean(_) => pool.entry("Boolean").or_default().push(v.clone()),
            FieldValue::List(l) => l.iter().for_each(|x| add(x, pool)),
            _ => {}
        }
    }
    let mut pool = Pool::new();
    for pm in d.props.values() {
        for v in pm.values() {
            add(v, &mut pool);
        }
    }
    pool
}

pub fn gen_value_for_type(rng: &mut Rng, t: &Type, hint: &VarHint, known_defects: u32, pool: &Pool) -> FieldValue {
    if t.nullable() && rng.chance(1, 8) {
        return FieldValue::Null;
    }
    if let Some(inner) = t.as_list() {
        let n = *rng.pick(&[0usize, 1, 2, 2, 3]);
        let items: Vec<FieldValue> = (0..n).map(|_| gen_value_for_type(rng, &inner, hint, known_defects, pool)).collect();
        return FieldValue::List(Arc::from(items));
    }
    if *hint == VarHint::Plain && rng.chance(3, 5) {
        if let Some(vs) = pool.get(t.base_type()) {
            if !vs.is_empty() {
                return rng.pick(vs).clone();
            }
        }
    }
    gen_scalar(rng, t.base_type(), hint, known_defects)
}

pub fn gen_args(
    rng: &mut Rng,
    vars: &BTreeMap<Arc<str>, Type>,
    hints: &BTreeMap<String, VarHint>,
    known_defects: u32,
    pool: &Pool,
) -> BTreeMap<Arc<str>, FieldValue> {
    vars.iter()
        .map(|(k, t)| {
            let hint = hints.get(k.as_ref()).cloned().unwrap_or(VarHint::Plain);
            (k.clone(), gen_value_for_type(rng, t, &hint, known_defects, pool))
        })
        .collect()
}
