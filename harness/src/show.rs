//! Canonical text rendering of implementation results; mirrors coq/theories/Show.v.
use std::cmp::Ordering;
use trustfall_core::ir::FieldValue;

pub fn hex(s: &str) -> String {
    let mut out = String::with_capacity(s.len() * 2);
    for b in s.as_bytes() {
        out.push_str(&format!("{:02x}", b));
    }
    out
}

pub fn show_fv(v: &FieldValue) -> String {
    match v {
        FieldValue::Null => "n".into(),
        FieldValue::Int64(i) => format!("i{i}"),
        FieldValue::Uint64(u) => format!("u{u}"),
        FieldValue::Float64(f) => format!("f{}", f.to_bits()),
        FieldValue::String(s) => format!("s{}", hex(s)),
        FieldValue::Boolean(b) => if *b { "T".into() } else { "F".into() },
        FieldValue::Enum(s) => format!("e{}", hex(s)),
        FieldValue::List(l) => {
            let parts: Vec<String> = l.iter().map(show_fv).collect();
            format!("[{}]", parts.join(","))
        }
        _ => "?".into(),
    }
}

pub fn show_cmp(o: Ordering) -> &'static str {
    match o {
        Ordering::Less => "Lt",
        Ordering::Equal => "Eq",
        Ordering::Greater => "Gt",
    }
}

pub fn show_bool(b: bool) -> &'static str {
    if b { "T" } else { "F" }
}
