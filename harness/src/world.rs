//! The harness' world: a fixed rich schema (interfaces, narrowed edges, parameterised edges with
//! defaults, every property kind), seeded random datasets conforming to it, and `GraphAdapter`, a
//! contract-abiding adapter that implements exactly `Graph.v::graph_of_dataset`.
use crate::coq::{cfv, clist, cstr};
use crate::rng::Rng;
use std::collections::BTreeMap;
use std::sync::Arc;
use trustfall_core::interpreter::{
    Adapter, AsVertex, ContextIterator, ContextOutcomeIterator, ResolveEdgeInfo, ResolveInfo,
    VertexIterator,
};
use trustfall_core::ir::{EdgeParameters, FieldValue};
use trustfall_core::schema::Schema;

#[derive(Clone, Debug)]
pub struct PropDef {
    pub name: &'static str,
    pub ty: &'static str,
}

#[derive(Clone, Debug)]
pub struct ParamDef {
    pub name: &'static str,
    pub ty: &'static str,
    pub default: Option<&'static str>,
}

#[derive(Clone, Debug)]
pub struct EdgeDef {
    pub name: &'static str,
    pub target: &'static str,
    pub ty: &'static str, // full GraphQL type text
    pub params: Vec<ParamDef>,
    pub at_most_one: bool,
}

#[derive(Clone, Debug)]
pub struct TypeDef {
    pub name: &'static str,
    pub is_interface: bool,
    pub implements: Vec<&'static str>,
    pub props: Vec<PropDef>,
    pub edges: Vec<EdgeDef>,
}

fn p(name: &'static str, ty: &'static str) -> PropDef {
    PropDef { name, ty }
}
fn e(name: &'static str, target: &'static str, ty: &'static str, params: Vec<ParamDef>, one: bool) -> EdgeDef {
    EdgeDef { name, target, ty, params, at_most_one: one }
}
fn pd(name: &'static str, ty: &'static str, default: Option<&'static str>) -> ParamDef {
    ParamDef { name, ty, default }
}

fn thing_props() -> Vec<PropDef> {
    vec![
        p("id", "Int!"),
        p("name", "String"),
        p("score", "Int"),
        p("ratio", "Float"),
        p("flag", "Boolean"),
        p("tags", "[String!]"),
        p("nums", "[Int]!"),
    ]
}
fn thing_edges() -> Vec<EdgeDef> {
    vec![
        e("next", "Thing", "[Thing!]", vec![pd("lo", "Int", None), pd("hi", "Int", Some("6"))], false),
        e("link", "Thing", "[Thing!]!", vec![], false),
        e("parent", "Thing", "Thing", vec![], true),
    ]
}
fn item_props() -> Vec<PropDef> {
    let mut v = thing_props();
    v.push(p("weight", "Int!"));
    v.push(p("label", "String!"));
    v
}
fn item_edges(peer_target: &'static str, peer_ty: &'static str) -> Vec<EdgeDef> {
    let mut v = thing_edges();
    v.push(e("peer", peer_target, peer_ty, vec![], false));
    v.push(e("up", "Thing", "[Thing!]", vec![pd("hi", "Int!", Some("500"))], false));
    v
}

pub fn type_defs() -> Vec<TypeDef> {
    let mut box_props = item_props();
    box_props.push(p("capacity", "Int"));
    let mut box_edges = item_edges("Box", "[Box!]");
    box_edges.push(e("contains", "Item", "[Item!]!", vec![], false));
    box_edges.push(e("inner", "Box", "[Box]", vec![pd("lo", "Int", Some("0"))], false));
    let mut leaf_props = item_props();
    leaf_props.push(p("leafy", "String"));
    let leaf_edges = item_edges("Item", "[Item!]");
    let mut gadget_props = thing_props();
    gadget_props.push(p("power", "Int"));
    let mut gadget_edges = thing_edges();
    gadget_edges.push(e("gears", "Gadget", "[Gadget!]", vec![], false));
    vec![
        TypeDef { name: "Thing", is_interface: true, implements: vec![], props: thing_props(), edges: thing_edges() },
        TypeDef { name: "Item", is_interface: true, implements: vec!["Thing"], props: item_props(), edges: item_edges("Item", "[Item!]") },
        TypeDef { name: "Box", is_interface: false, implements: vec!["Item", "Thing"], props: box_props, edges: box_edges },
        TypeDef { name: "Leaf", is_interface: false, implements: vec!["Item", "Thing"], props: leaf_props, edges: leaf_edges },
        TypeDef { name: "Gadget", is_interface: false, implements: vec!["Thing"], props: gadget_props, edges: gadget_edges },
    ]
}

pub struct EntryDef {
    pub name: &'static str,
    pub target: &'static str,
    pub ty: &'static str,
    pub params: Vec<ParamDef>,
}

pub fn entry_defs() -> Vec<EntryDef> {
    vec![
        EntryDef { name: "Thing", target: "Thing", ty: "[Thing!]!", params: vec![pd("lo", "Int", None), pd("hi", "Int", None)] },
        EntryDef { name: "Item", target: "Item", ty: "[Item!]", params: vec![pd("lo", "Int", Some("0")), pd("hi", "Int", None)] },
        EntryDef { name: "Box", target: "Box", ty: "[Box!]!", params: vec![] },
        EntryDef { name: "Leaf", target: "Leaf", ty: "[Leaf]", params: vec![pd("hi", "Int!", Some("1000"))] },
        EntryDef { name: "Gadget", target: "Gadget", ty: "[Gadget!]!", params: vec![] },
    ]
}

pub fn concrete_types() -> Vec<&'static str> {
    vec!["Box", "Leaf", "Gadget"]
}

/// concrete types that are instances of `t`
pub fn instances_of(t: &str) -> Vec<&'static str> {
    match t {
        "Thing" => vec!["Box", "Leaf", "Gadget"],
        "Item" => vec!["Box", "Leaf"],
        "Box" => vec!["Box"],
        "Leaf" => vec!["Leaf"],
        "Gadget" => vec!["Gadget"],
        _ => vec![],
    }
}

/// all (proper or not) subtypes of `t` among all types
pub fn subtypes_of(t: &str) -> Vec<&'static str> {
    match t {
        "Thing" => vec!["Thing", "Item", "Box", "Leaf", "Gadget"],
        "Item" => vec!["Item", "Box", "Leaf"],
        "Box" => vec!["Box"],
        "Leaf" => vec!["Leaf"],
        "Gadget" => vec!["Gadget"],
        _ => vec![],
    }
}

pub fn type_def(name: &str) -> TypeDef {
    type_defs().into_iter().find(|t| t.name == name).unwrap()
}

fn params_text(ps: &[ParamDef]) -> String {
    if ps.is_empty() {
        return String::new();
    }
    let parts: Vec<String> = ps
        .iter()
        .map(|p| match p.default {
            Some(d) => format!("{}: {} = {}", p.name, p.ty, d),
            None => format!("{}: {}", p.name, p.ty),
        })
        .collect();
    format!("({})", parts.join(", "))
}

pub fn schema_text() -> String {
    let mut s = String::from("schema {\n  query: RootSchemaQuery\n}\n");
    s.push_str(Schema::ALL_DIRECTIVE_DEFINITIONS);
    s.push_str("\ntype RootSchemaQuery {\n");
    for en in entry_defs() {
        s.push_str(&format!("  {}{}: {}\n", en.name, params_text(&en.params), en.ty));
    }
    s.push_str("}\n");
    for t in type_defs() {
        let kw = if t.is_interface { "interface" } else { "type" };
        let imp = if t.implements.is_empty() { String::new() } else { format!(" implements {}", t.implements.join(" & ")) };
        s.push_str(&format!("\n{} {}{} {{\n", kw, t.name, imp));
        for pr in &t.props {
            s.push_str(&format!("  {}: {}\n", pr.name, pr.ty));
        }
        for ed in &t.edges {
            s.push_str(&format!("  {}{}: {}\n", ed.name, params_text(&ed.params), ed.ty));
        }
        s.push_str("}\n");
    }
    s
}

pub fn schema() -> Schema {
    Schema::parse(schema_text()).expect("world schema must be valid")
}

// ------------------------------------------------------------------ datasets

#[derive(Clone, Debug, Default)]
pub struct Dataset {
    pub vtype: BTreeMap<u64, &'static str>,
    pub props: BTreeMap<u64, BTreeMap<String, FieldValue>>,
    pub edges: BTreeMap<u64, BTreeMap<String, Vec<u64>>>,
    pub starts: BTreeMap<String, Vec<u64>>,
}

fn s(x: &str) -> FieldValue {
    FieldValue::String(Arc::from(x))
}

fn gen_int(rng: &mut Rng) -> FieldValue {
    match rng.below(10) {
        0 => FieldValue::Int64(i64::MIN),
        1 => FieldValue::Int64(i64::MAX),
        2 => FieldValue::Uint64(u64::MAX),
        3 => FieldValue::Uint64(i64::MAX as u64 + 1),
        4 => FieldValue::Uint64(rng.below(5) as u64),
        5 => FieldValue::Int64(-(rng.below(4) as i64)),
        _ => FieldValue::Int64(rng.range(0, 6)),
    }
}

fn gen_str(rng: &mut Rng) -> FieldValue {
    s(*rng.pick(&["", "a", "ab", "abc", "b", "ba", "A", "a(", "x y", "\u{e9}"]))
}

pub fn gen_prop_value(rng: &mut Rng, ty: &str, vid: u64) -> FieldValue {
    // nullable types yield null about a fifth of the time
    let nonnull = ty.ends_with('!');
    let core = ty.trim_end_matches('!');
    if !nonnull && rng.chance(1, 5) {
        return FieldValue::Null;
    }
    if let Some(inner) = core.strip_prefix('[').and_then(|x| x.strip_suffix(']')) {
        let n = rng.below(4);
        let items: Vec<FieldValue> = (0..n).map(|_| gen_prop_value(rng, inner, vid)).collect();
        return FieldValue::List(Arc::from(items));
    }
    match core {
        "Int" => gen_int(rng),
        "String" => gen_str(rng),
        "Float" => FieldValue::Float64(*rng.pick(&[0.0, -0.0, 1.5, -1.5, 2.0, 1e300, 5e-324])),
        "Boolean" => FieldValue::Boolean(rng.chance(1, 2)),
        _ => FieldValue::Null,
    }
}

pub fn gen_dataset(rng: &mut Rng, max_vertices: usize) -> Dataset {
    // mostly non-trivial sizes; the empty and singleton datasets still occur
    let n = if rng.chance(1, 10) { rng.below(2) } else { 2 + rng.below(max_vertices - 1) };
    let mut d = Dataset::default();
    let conc = concrete_types();
    for v in 1..=(n as u64) {
        d.vtype.insert(v, *rng.pick(&conc));
    }
    for v in 1..=(n as u64) {
        let t = type_def(d.vtype[&v]);
        let mut pm = BTreeMap::new();
        for pr in &t.props {
            let val = if pr.name == "id" {
                // ids are the vertex ids, sometimes as Uint64 so that mixed-sign comparisons occur
                if rng.chance(1, 4) { FieldValue::Uint64(v) } else { FieldValue::Int64(v as i64) }
            } else {
                gen_prop_value(rng, pr.ty, v)
            };
            if !matches!(val, FieldValue::Null) {
                pm.insert(pr.name.to_string(), val);
            }
        }
        d.props.insert(v, pm);
        let mut em = BTreeMap::new();
        for ed in &t.edges {
            let allowed: Vec<u64> = (1..=(n as u64)).filter(|u| instances_of(ed.target).contains(&d.vtype[u])).collect();
            let mut ns = vec![];
            if !allowed.is_empty() {
                let k = if ed.at_most_one { rng.below(2) } else { *rng.pick(&[0, 0, 1, 1, 2, 2, 3, 4]) };
                for _ in 0..k {
                    ns.push(*rng.pick(&allowed));
                }
            }
            if !ns.is_empty() {
                em.insert(ed.name.to_string(), ns);
            }
        }
        d.edges.insert(v, em);
    }
    for en in entry_defs() {
        let mut vs: Vec<u64> = (1..=(n as u64)).filter(|u| instances_of(en.target).contains(&d.vtype[u])).collect();
        // entry points may list vertices in any order, with repetitions
        if rng.chance(1, 3) {
            vs.reverse();
        }
        if rng.chance(1, 6) && !vs.is_empty() {
            let x = *rng.pick(&vs);
            vs.push(x);
        }
        d.starts.insert(en.name.to_string(), vs);
    }
    d
}

impl Dataset {
    pub fn to_coq(&self) -> String {
        let vt: Vec<String> = self.vtype.iter().map(|(v, t)| format!("({}%N, {})", v, cstr(t))).collect();
        let pr: Vec<String> = self
            .props
            .iter()
            .map(|(v, pm)| {
                let items: Vec<String> = pm.iter().map(|(k, x)| format!("({}, {})", cstr(k), cfv(x))).collect();
                format!("({}%N, {})", v, clist(&items))
            })
            .collect();
        let ed: Vec<String> = self
            .edges
            .iter()
            .map(|(v, em)| {
                let items: Vec<String> = em
                    .iter()
                    .map(|(k, ns)| {
                        let nn: Vec<String> = ns.iter().map(|n| format!("{}%N", n)).collect();
                        format!("({}, {})", cstr(k), clist(&nn))
                    })
                    .collect();
                format!("({}%N, {})", v, clist(&items))
            })
            .collect();
        let st: Vec<String> = self
            .starts
            .iter()
            .map(|(k, ns)| {
                let nn: Vec<String> = ns.iter().map(|n| format!("{}%N", n)).collect();
                format!("({}, {})", cstr(k), clist(&nn))
            })
            .collect();
        let subs: Vec<String> = type_defs()
            .iter()
            .map(|t| {
                let l: Vec<String> = instances_of(t.name).iter().map(|x| cstr(x)).collect();
                format!("({}, {})", cstr(t.name), clist(&l))
            })
            .collect();
        format!("(mkDS {} {} {} {} {})", clist(&vt), clist(&pr), clist(&ed), clist(&st), clist(&subs))
    }

    pub fn to_json(&self) -> serde_json::Value {
        serde_json::json!({
            "vtype": self.vtype.iter().map(|(k, v)| (k.to_string(), v.to_string())).collect::<BTreeMap<_, _>>(),
            "props": self.props.iter().map(|(k, pm)| (k.to_string(), pm.iter().map(|(n, x)| (n.clone(), crate::show::show_fv(x))).collect::<BTreeMap<_, _>>())).collect::<BTreeMap<_, _>>(),
            "edges": self.edges.iter().map(|(k, em)| (k.to_string(), em.clone())).collect::<BTreeMap<_, _>>(),
            "starts": self.starts,
        })
    }
}

// ------------------------------------------------------------------ adapter

fn int_of(v: &FieldValue) -> Option<i128> {
    match v {
        FieldValue::Int64(i) => Some(*i as i128),
        FieldValue::Uint64(u) => Some(*u as i128),
        _ => None,
    }
}

/// `Graph.v::params_keep`
pub fn params_keep(ps: &EdgeParameters, n: u64) -> bool {
    for (name, val) in ps.iter() {
        if let Some(z) = int_of(val) {
            if name.starts_with("lo") {
                if !(z <= n as i128) {
                    return false;
                }
            } else if name.starts_with("hi") && !((n as i128) <= z) {
                return false;
            }
        }
    }
    true
}

#[derive(Clone, Debug)]
pub struct GraphAdapter {
    pub d: Arc<Dataset>,
}

impl GraphAdapter {
    pub fn new(d: Dataset) -> Self {
        GraphAdapter { d: Arc::new(d) }
    }
    pub fn prop(&self, field: &str, v: u64) -> FieldValue {
        if field == "__typename" {
            return s(self.d.vtype.get(&v).copied().unwrap_or(""));
        }
        self.d.props.get(&v).and_then(|pm| pm.get(field)).cloned().unwrap_or(FieldValue::Null)
    }
    pub fn nbrs(&self, edge: &str, ps: &EdgeParameters, v: u64) -> Vec<u64> {
        self.d
            .edges
            .get(&v)
            .and_then(|em| em.get(edge))
            .map(|ns| ns.iter().copied().filter(|n| params_keep(ps, *n)).collect())
            .unwrap_or_default()
    }
    pub fn starts(&self, name: &str, ps: &EdgeParameters) -> Vec<u64> {
        self.d.starts.get(name).map(|ns| ns.iter().copied().filter(|n| params_keep(ps, *n)).collect()).unwrap_or_default()
    }
    pub fn coerce(&self, to: &str, v: u64) -> bool {
        match self.d.vtype.get(&v) {
            Some(t) => instances_of(to).contains(t),
            None => false,
        }
    }
}

impl<'a> Adapter<'a> for GraphAdapter {
    type Vertex = u64;

    fn resolve_starting_vertices(
        &self,
        edge_name: &Arc<str>,
        parameters: &EdgeParameters,
        _resolve_info: &ResolveInfo,
    ) -> VertexIterator<'a, Self::Vertex> {
        Box::new(self.starts(edge_name, parameters).into_iter())
    }

    fn resolve_property<V: AsVertex<Self::Vertex> + 'a>(
        &self,
        contexts: ContextIterator<'a, V>,
        _type_name: &Arc<str>,
        property_name: &Arc<str>,
        _resolve_info: &ResolveInfo,
    ) -> ContextOutcomeIterator<'a, V, FieldValue> {
        let me = self.clone();
        let name = property_name.clone();
        Box::new(contexts.map(move |ctx| {
            let val = match ctx.active_vertex::<u64>() {
                Some(v) => me.prop(&name, *v),
                None => FieldValue::Null,
            };
            (ctx, val)
        }))
    }

    fn resolve_neighbors<V: AsVertex<Self::Vertex> + 'a>(
        &self,
        contexts: ContextIterator<'a, V>,
        _type_name: &Arc<str>,
        edge_name: &Arc<str>,
        parameters: &EdgeParameters,
        _resolve_info: &ResolveEdgeInfo,
    ) -> ContextOutcomeIterator<'a, V, VertexIterator<'a, Self::Vertex>> {
        let me = self.clone();
        let name = edge_name.clone();
        let ps = parameters.clone();
        Box::new(contexts.map(move |ctx| {
            let ns: Vec<u64> = match ctx.active_vertex::<u64>() {
                Some(v) => me.nbrs(&name, &ps, *v),
                None => vec![],
            };
            let it: VertexIterator<'a, u64> = Box::new(ns.into_iter());
            (ctx, it)
        }))
    }

    fn resolve_coercion<V: AsVertex<Self::Vertex> + 'a>(
        &self,
        contexts: ContextIterator<'a, V>,
        _type_name: &Arc<str>,
        coerce_to_type: &Arc<str>,
        _resolve_info: &ResolveInfo,
    ) -> ContextOutcomeIterator<'a, V, bool> {
        let me = self.clone();
        let to = coerce_to_type.clone();
        Box::new(contexts.map(move |ctx| {
            let ok = match ctx.active_vertex::<u64>() {
                Some(v) => me.coerce(&to, *v),
                None => false,
            };
            (ctx, ok)
        }))
    }
}
