#!/bin/bash
# Build the framework from files on disk only (offline): the Coq development and the harness.
set -e
cd "$(dirname "$0")"
export CARGO_NET_OFFLINE=true
mkdir -p .cache work evidence
( cd coq && coq_makefile -f _CoqProject -o Makefile >/dev/null && timeout 3000 make -j16 >/dev/null 2>.cache_make_err || { cat .cache_make_err; rm -f .cache_make_err; exit 1; } ; rm -f .cache_make_err )
[ -f harness/Cargo.lock ] || cp /repo/Cargo.lock harness/Cargo.lock
( cd harness && timeout 3000 cargo build --release --offline 2>&1 | tail -3 )
echo setup-ok
