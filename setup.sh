#!/bin/bash
# Build the framework from files on disk only (offline): the Coq development and the harness.
# Each ./check builds what it needs itself (incrementally); this just warms the caches.
cd "$(dirname "$0")"
export CARGO_NET_OFFLINE=true
mkdir -p .cache work evidence
( cd coq && coq_makefile -f _CoqProject -o Makefile >/dev/null && timeout 3000 make -k -j16 >/dev/null 2>work_make_err.log ; rc=$?; if [ $rc -ne 0 ]; then echo "setup: coq make reported errors (individual checks will report them):"; grep -A5 '^File' work_make_err.log | head -40; fi; rm -f work_make_err.log )
[ -f harness/Cargo.lock ] || cp /repo/Cargo.lock harness/Cargo.lock
( cd harness && timeout 3000 cargo build --release --offline 2>&1 | tail -3 )
echo setup-ok
exit 0
