#!/bin/bash
# Build the framework from files on disk only (offline): the Coq development and the harness.
# Each ./check builds what it needs itself (incrementally); this just warms the caches.
cd "$(dirname "$0")"
export CARGO_NET_OFFLINE=true
mkdir -p .cache work evidence
( python3 tools/coqmake.py -k || echo "setup: coq build reported errors (individual checks will report them)" )
[ -f harness/Cargo.lock ] || cp /repo/Cargo.lock harness/Cargo.lock
( cd harness && timeout 3000 cargo build --release --offline 2>&1 | tail -3 )
echo setup-ok
exit 0
