"""Runner for C14 (determinism across processes) and C24 (thread safety): the generic proof stage + harness
(`tfh_det c14` / `tfh_det c24`, which spawn their own child processes) + tie, followed by guards against a
vacuous run: the multi-process / multi-thread comparison must actually have happened.

If the harness binary does not build (e.g. because a type asserted `Send + Sync` in tfh_det.rs no longer is),
run_generic reports `harness-build` with the rustc diagnostic: for C24 that is the intended detection."""
from generic import run_generic


def post(prop, cfg, tier, seed, outdir, tie, failures, problems):
    extra = tie["summary"].get("extra") or {}
    argv = list(cfg.get("extra", {}).get(tier, []))

    def opt(name, default):
        return int(argv[argv.index(name) + 1]) if name in argv else default

    if prop == "C14":
        k = opt("--k", 4)
        compared = extra.get("cases_compared", 0)
        spawned = extra.get("processes_spawned", 0)
        f14 = extra.get("F14_observation") or {}
        if extra.get("processes_per_case") != k or spawned < k or compared == 0:
            problems.append({"kind": "vacuous", "problems": [
                "the multi-process comparison did not run (processes_spawned=%s, processes_per_case=%s, cases_compared=%s)"
                % (spawned, extra.get("processes_per_case"), compared)]})
        elif not failures:
            identical = extra.get("cases_byte_identical_across_all_runs", 0)
            if identical + f14.get("introspection_cases", 0) != compared:
                problems.append({"kind": "vacuous", "problems": [
                    "only %s of %s cases were compared in all %s processes" % (identical, compared, k)]})
    elif prop == "C24":
        if extra.get("concurrent_operations_compared", 0) == 0 or extra.get("threads") != opt("--threads", 8):
            problems.append({"kind": "vacuous", "problems": [
                "the multi-threaded comparison did not run (operations=%s, threads=%s)"
                % (extra.get("concurrent_operations_compared"), extra.get("threads"))]})


def run(prop, cfg, tier, seed, t0):
    return run_generic(prop, cfg, tier, seed, t0, post=post)
