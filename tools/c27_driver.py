#!/usr/bin/env python3
"""C27 Python-side driver.  Runs under the sandbox's plain python3 with the freshly built pytrustfall
extension module (package directory given by --pkg; nothing is installed).

 (1) conversion probes: every probe object is sent through the real binding
       * as a query ARGUMENT  (observed: the FieldValue that arrived in the Rust engine, read back from
         the engine's own type-mismatch message `... cannot be converted to that type: <Debug>`, or the
         kind of ValueError raised by the conversion), and
       * as a PROPERTY VALUE returned by a Python adapter and output by the query (observed: the Python
         object that comes back, or the Rust panic),
     and rendered in the canonical formats of Show.v / PyConv.v (show_fv, show_py);
     for every probe the model's classification of the object (a Gallina `pyobj` literal) is emitted, and
     the property's direct oracle (convertible => accepted faithfully; non-convertible => rejected) is
     evaluated here, independently of the Coq model.
 (2) engine agreement: every world written by tfh_c27 is rebuilt behind a Python `Adapter` mirroring the
     harness' Rust `GraphAdapter`, the query is run through trustfall.execute_query, and the rows are
     rendered canonically (ints as plain decimals: Python has one int type) next to the Rust engine's rows.
Writes one JSON document (--out); decides nothing itself except the per-item oracle verdicts.
"""
import json
import operator
import random
import struct
import sys

I64_MIN, I64_MAX, U64_MAX = -(2 ** 63), 2 ** 63 - 1, 2 ** 64 - 1


def parse_argv(argv):
    a = {"--pkg": None, "--worlds": None, "--out": None, "--seed": "0", "--nrandom": "100"}
    i = 0
    while i < len(argv):
        if argv[i] in a:
            a[argv[i]] = argv[i + 1]
            i += 2
        else:
            i += 1
    return a


# --------------------------------------------------------------------------- renderers
def f64_bits(x):
    return struct.unpack("<Q", struct.pack("<d", x))[0]


def bits_f64(b):
    return struct.unpack("<d", struct.pack("<Q", b))[0]


def hexs(s):
    return s.encode("utf-8").hex()


def show_py(x):
    """canonical rendering of a Python object that came OUT of the binding (exact types only);
    mirrors PyConv.v show_py"""
    if x is None:
        return "N"
    t = type(x)
    if t is bool:
        return "B1" if x else "B0"
    if t is int:
        return "I%d" % x
    if t is float:
        return "D%d" % f64_bits(x)
    if t is str:
        return "S" + hexs(x)
    if t is list:
        return "[" + ",".join(show_py(y) for y in x) + "]"
    return "O"


# --------------------------------------------------------------------------- classification (trusted)
class MyInt(int):
    pass


class MyFloat(float):
    pass


class MyStr(str):
    pass


class MyList(list):
    pass


class HasIndex:
    def __init__(self, z):
        self.z = z

    def __index__(self):
        return self.z


class HasFloat:
    def __init__(self, f):
        self.f = f

    def __float__(self):
        return self.f


def classify(x):
    """The model's view of a Python object: what pyo3's primitive extractions can observe of it
    (see the comment on `pyobj` in PyConv.v)."""
    if x is None:
        return ("none",)
    if type(x) is bool:
        return ("bool", x)
    if isinstance(x, int):
        return ("int", int(x))
    if isinstance(x, float):
        return ("float", f64_bits(float(x)))
    if isinstance(x, str):
        try:
            return ("str", str(x).encode("utf-8"))
        except UnicodeEncodeError:
            return ("other",)
    if isinstance(x, list):
        return ("list", [classify(y) for y in x])
    if hasattr(type(x), "__index__"):
        return ("int", operator.index(x))
    if hasattr(type(x), "__float__"):
        return ("float", f64_bits(float(x)))
    return ("other",)


def cstr_bytes(b):
    if all(0x20 <= c <= 0x7E for c in b):
        return '"%s"' % b.decode("ascii").replace('"', '""')
    return "(sb [%s]%%N)" % ";".join(str(c) for c in b)


def cz(z):
    return "(%d)%%Z" % z if z < 0 else "%d%%Z" % z


def coq_pyobj(c):
    k = c[0]
    if k == "none":
        return "PNone"
    if k == "bool":
        return "(PBool %s)" % ("true" if c[1] else "false")
    if k == "int":
        return "(PInt %s)" % cz(c[1])
    if k == "float":
        return "(PFloat %d%%N)" % c[1]
    if k == "str":
        return "(PStr %s)" % cstr_bytes(c[1])
    if k == "list":
        return "(PList [%s])" % "; ".join(coq_pyobj(y) for y in c[1])
    return "POther"


def show_class(c):
    """show_py of the classified object = what a faithful round trip gives back"""
    k = c[0]
    if k == "none":
        return "N"
    if k == "bool":
        return "B1" if c[1] else "B0"
    if k == "int":
        return "I%d" % c[1]
    if k == "float":
        return "D%d" % c[1]
    if k == "str":
        return "S" + c[1].hex()
    if k == "list":
        return "[" + ",".join(show_class(y) for y in c[1]) + "]"
    return "O"


def show_class_fv(c):
    """show_fv of the faithful FieldValue image, ints rendered without their kind ('i' for both)"""
    k = c[0]
    if k == "none":
        return "n"
    if k == "bool":
        return "T" if c[1] else "F"
    if k == "int":
        return "i%d" % c[1]
    if k == "float":
        return "f%d" % c[1]
    if k == "str":
        return "s" + c[1].hex()
    if k == "list":
        return "[" + ",".join(show_class_fv(y) for y in c[1]) + "]"
    return "?"


# --------------------------------------------------------------------------- property-text oracle
def float_finite_bits(b):
    return ((b >> 52) & 2047) != 2047


def convertible(c):
    """per the property text: nulls, booleans, 64-bit integers (signed and unsigned), finite floats,
    strings and nested lists of those"""
    k = c[0]
    if k in ("none", "bool", "str"):
        return True
    if k == "int":
        return I64_MIN <= c[1] <= U64_MAX
    if k == "float":
        return float_finite_bits(c[1])
    if k == "list":
        return all(convertible(y) for y in c[1])
    return False


def one_python_type(c):
    """every list (at any depth) holds, besides None, elements of a single Python type"""
    if c[0] != "list":
        return True
    kinds = {y[0] for y in c[1] if y[0] != "none"}
    return len(kinds) <= 1 and all(one_python_type(y) for y in c[1])


def has_bigint(c):
    if c[0] == "int":
        return not (I64_MIN <= c[1] <= U64_MAX)
    if c[0] == "list":
        return any(has_bigint(y) for y in c[1])
    return False


def has_mixed_int_list(c):
    if c[0] != "list":
        return False
    ints = [y[1] for y in c[1] if y[0] == "int"]
    if any(z <= I64_MAX for z in ints) and any(z > I64_MAX for z in ints):
        return True
    return any(has_mixed_int_list(y) for y in c[1])


def input_class(c):
    if has_bigint(c):
        return "K-py-bigint-float"
    if has_mixed_int_list(c):
        return "K-py-mixed-int-list"
    return None


def unkind(s):
    """show_fv text with the integer kind erased (u123 -> i123)"""
    out = []
    for i, ch in enumerate(s):
        if ch == "u" and (i == 0 or s[i - 1] in "[,:"):
            out.append("i")
        else:
            out.append(ch)
    return "".join(out)


def oracle(c, arg_obs, prop_obs):
    """list of failures of the property text on this probe (model-independent)"""
    fails = []
    conv = convertible(c)
    if conv and one_python_type(c):
        if unkind(arg_obs) != "OK:" + show_class_fv(c):
            fails.append("a convertible value was not accepted faithfully as a query argument: " + arg_obs)
        if prop_obs != show_class(c):
            fails.append("a convertible property value did not come back unchanged: " + prop_obs)
    elif conv:
        # lists mixing Python types: no trustfall type holds them; either outcome, but never a changed value
        if arg_obs.startswith("OK:") and unkind(arg_obs) != "OK:" + show_class_fv(c):
            fails.append("accepted argument arrived changed: " + arg_obs)
        if prop_obs != "PANIC" and prop_obs != show_class(c):
            fails.append("accepted property value came back changed: " + prop_obs)
    else:
        if not arg_obs.startswith("ERR:"):
            fails.append("a non-convertible argument value was not rejected with an error: " + arg_obs)
        if prop_obs != "PANIC" and not prop_obs.startswith("EXC:"):
            fails.append("a non-convertible property value was not rejected: " + prop_obs)
    return fails


# --------------------------------------------------------------------------- Rust Debug parser
class DebugParser:
    """parses `{:?}` of trustfall_core::ir::FieldValue into show_fv text"""

    def __init__(self, s):
        self.s = s
        self.i = 0

    def eat(self, lit):
        if not self.s.startswith(lit, self.i):
            raise ValueError("expected %r at %d in %r" % (lit, self.i, self.s))
        self.i += len(lit)

    def until(self, ch):
        j = self.s.index(ch, self.i)
        r = self.s[self.i:j]
        self.i = j
        return r

    def value(self):
        s = self.s
        if s.startswith("Null", self.i):
            self.i += 4
            return "n"
        if s.startswith("Int64(", self.i):
            self.i += 6
            r = self.until(")")
            self.i += 1
            return "i%d" % int(r)
        if s.startswith("Uint64(", self.i):
            self.i += 7
            r = self.until(")")
            self.i += 1
            return "u%d" % int(r)
        if s.startswith("Float64(", self.i):
            self.i += 8
            r = self.until(")")
            self.i += 1
            return "f%d" % f64_bits(float(r))
        if s.startswith("Boolean(", self.i):
            self.i += 8
            r = self.until(")")
            self.i += 1
            return "T" if r == "true" else "F"
        if s.startswith("String(", self.i) or s.startswith("Enum(", self.i):
            tag = "s" if s.startswith("String(", self.i) else "e"
            self.i = s.index("(", self.i) + 1
            txt = self.string()
            self.eat(")")
            return tag + hexs(txt)
        if s.startswith("List([", self.i):
            self.i += 6
            items = []
            while not s.startswith("]", self.i):
                items.append(self.value())
                if s.startswith(", ", self.i):
                    self.i += 2
            self.eat("])")
            return "[" + ",".join(items) + "]"
        raise ValueError("cannot parse FieldValue debug text at %d: %r" % (self.i, s))

    def string(self):
        self.eat('"')
        out = []
        s = self.s
        while s[self.i] != '"':
            ch = s[self.i]
            if ch == "\\":
                n = s[self.i + 1]
                if n == "u":
                    j = s.index("}", self.i)
                    out.append(chr(int(s[self.i + 3:j], 16)))
                    self.i = j + 1
                    continue
                out.append({"n": "\n", "t": "\t", "r": "\r", "0": "\0", "\\": "\\", '"': '"', "'": "'"}[n])
                self.i += 2
            else:
                out.append(ch)
                self.i += 1
        self.i += 1
        return "".join(out)


def parse_debug(txt):
    p = DebugParser(txt)
    v = p.value()
    if p.i != len(txt):
        raise ValueError("trailing text after FieldValue debug: %r" % txt[p.i:])
    return v


# --------------------------------------------------------------------------- the binding under test
def load_binding(pkg):
    sys.path.insert(0, pkg)
    import trustfall  # noqa: E402
    return trustfall


PROBE_SCHEMA = """
schema { query: RootSchemaQuery }
directive @filter(op: String!, value: [String!]) repeatable on FIELD | INLINE_FRAGMENT
directive @tag(name: String) on FIELD
directive @output(name: String) on FIELD
directive @optional on FIELD
directive @recurse(depth: Int!) on FIELD
directive @fold on FIELD
directive @transform(op: String!) on FIELD
type RootSchemaQuery { Probe: [Probe!]! }
type Probe { i: Int  s: String  f: Float  b: Boolean  li: [Int]  ls: [String]  lli: [[Int]] }
"""

MISMATCH = "cannot be converted to that type: "


def err_kind(msg):
    if "float values may not be NaN or infinity" in msg:
        return "nonfinite"
    if "Found elements of different (non-null) types in the same list" in msg:
        return "hetero"
    if "is not supported by Trustfall" in msg:
        return "unsupported"
    return "?" + msg[:80]


def make_probe_runner(tf):
    schema = tf.Schema(PROBE_SCHEMA)

    class ProbeAdapter(tf.Adapter):
        def __init__(self, values):
            self.values = values

        def resolve_starting_vertices(self, edge_name, parameters, *a, **k):
            return [0]

        def resolve_property(self, contexts, type_name, property_name, *a, **k):
            for c in contexts:
                yield (c, self.values[property_name])

        def resolve_neighbors(self, *a, **k):
            raise NotImplementedError()

        def resolve_coercion(self, *a, **k):
            raise NotImplementedError()

    def run_arg(field, obj):
        q = '{ Probe { %s @filter(op: "=", value: ["$x"]) @output } }' % field
        try:
            list(tf.execute_query(ProbeAdapter({"b": True, "i": 1}), schema, q, {"x": obj}))
            return ("accepted", None)
        except tf.QueryArgumentsError as e:
            msg = str(e)
            if MISMATCH in msg:
                return ("mismatch", msg.split(MISMATCH, 1)[1])
            return ("exc", "QueryArgumentsError:" + msg[:120])
        except ValueError as e:
            return ("valueerror", str(e))
        except BaseException as e:  # noqa: BLE001 (PanicException derives from BaseException)
            return ("exc", type(e).__name__ + ":" + str(e)[:120])

    def observe_arg(obj):
        """the FieldValue that arrives in the engine for argument value obj, as `OK:<show_fv>`,
        or `ERR:<kind>` when the conversion raises"""
        k, d = run_arg("b", obj)            # variable of type Boolean
        if k == "valueerror":
            return "ERR:" + err_kind(d)
        if k == "mismatch":
            return "OK:" + parse_debug(d)
        if k == "accepted":                 # valid for Boolean: null or a boolean; ask the Int variable
            k2, d2 = run_arg("i", obj)
            if k2 == "accepted":
                return "OK:n"
            if k2 == "mismatch":
                return "OK:" + parse_debug(d2)
            return "EXC:" + str(d2)
        return "EXC:" + str(d)

    def observe_prop(obj):
        """the Python object that comes back when a Python adapter returns obj as a property value and
        the query outputs it (show_py), or PANIC"""
        try:
            rows = list(tf.execute_query(ProbeAdapter({"i": obj}), schema, "{ Probe { i @output } }", {}))
            if len(rows) != 1 or list(rows[0].keys()) != ["i"]:
                return "EXC:unexpected rows %r" % (rows,)
            return show_py(rows[0]["i"])
        except BaseException as e:  # noqa: BLE001
            if type(e).__name__ == "PanicException":
                return "PANIC"
            return "EXC:" + type(e).__name__ + ":" + str(e)[:120]

    def misc_checks():
        """the argument container and the adapter type are checked too (direct, not modelled)"""
        out = []
        q = "{ Probe { i @output } }"
        for name, args in [("args=None", None), ("args=list", [1]), ("args non-str key", {1: 1}),
                           ("args value in tuple", {"x": (1,)})]:
            try:
                list(tf.execute_query(ProbeAdapter({"i": 1}), schema, q, args))
                out.append({"name": name, "rejected": False, "how": "accepted"})
            except Exception as e:  # noqa: BLE001
                out.append({"name": name, "rejected": True, "how": type(e).__name__})
            except BaseException as e:  # noqa: BLE001
                out.append({"name": name, "rejected": False, "how": "non-Exception " + type(e).__name__})
        try:
            list(tf.execute_query(object(), schema, q, {}))
            out.append({"name": "adapter=object()", "rejected": False, "how": "accepted"})
        except Exception as e:  # noqa: BLE001
            out.append({"name": "adapter=object()", "rejected": True, "how": type(e).__name__})
        return out

    return observe_arg, observe_prop, misc_checks


# --------------------------------------------------------------------------- probes
def fixed_probes():
    nan = float("nan")
    inf = float("inf")
    P = [
        None, True, False, 0, 1, -1, 2, 2 ** 31, 2 ** 53 + 1,
        2 ** 63 - 2, 2 ** 63 - 1, 2 ** 63, 2 ** 63 + 1, 2 ** 64 - 2, 2 ** 64 - 1, 2 ** 64, 2 ** 64 + 1,
        -(2 ** 63) + 1, -(2 ** 63), -(2 ** 63) - 1, -(2 ** 63) - 1025, -(2 ** 64), 2 ** 70 + 2 ** 17, 2 ** 70 + 2 ** 17 + 1,
        2 ** 100 + 2 ** 47, 2 ** 100 + 3 * 2 ** 47, 10 ** 30, 10 ** 400, -(10 ** 400),
        2 ** 1023, 2 ** 1024 - 2 ** 970 - 1, 2 ** 1024 - 2 ** 970, 2 ** 1024, -(2 ** 1024) + 2 ** 970 + 1, -(2 ** 1024) + 2 ** 970,
        1.5, -1.5, 0.0, -0.0, 5e-324, 1e300, 1.7976931348623157e308, 9007199254740993.0, inf, -inf, nan,
        "", "a", "é", "a\"b", "x y", "back\\slash", "line\nbreak", "中\U0001f600", "\udc80",
        [], [None], [1], [1, None], [None, 1, None, 2], [1, "a"], ["a", 1], [1, 2.0], [1.0, 2], [1, True], [True, False, None],
        [1, 2 ** 63], [2 ** 63, 1], [None, 2 ** 63, 2 ** 64 - 1], [2 ** 63 - 1, -1], [0, 2 ** 64 - 1],
        [1, 2 ** 64], [2 ** 64, 2 ** 65], [1.5, 2 ** 64], ["a", ""], [1.5, -0.0],
        [[1], [2.0]], [[1], ["a"]], [[1], [2 ** 63]], [[1, 2 ** 63]], [[]], [[], [1]], [[None], None, [1, 2]],
        [[[1]]], [[[1, None], []], [[2 ** 64 - 1]]], [[[1]], [["a"]]], [[1], 2], [1, [2]],
        [1, nan], [nan], [[inf]], [1, float("-inf")],
        {}, {"a": 1}, object(), b"x", bytearray(b"x"), (1, 2), (), {1}, 1 + 2j, len, [object()], [1, object()],
        [object(), nan], [1, "a", object()], [[1], (2,)], range(3),
        MyInt(5), MyInt(2 ** 63), MyInt(2 ** 64), MyFloat(1.25), MyFloat(inf), MyStr("q"), MyList([1]), MyList([1, "a"]),
        HasIndex(7), HasIndex(2 ** 63), HasIndex(2 ** 64), HasFloat(2.5), HasFloat(nan), [HasIndex(1), 2], [HasFloat(1.0), 2.0],
    ]
    return P


def gen_round_int(rng):
    """ints beyond 64 bits built around the round-half-to-even decision points of int -> float"""
    nbits = rng.choice([65, 66, 70, 80, 100, 200, 512, 1000, 1023, 1024, 1025])
    n = nbits - 1                      # floor(log2 z)
    sh = n - 52
    q = (1 << 52) | rng.getrandbits(52)
    if rng.random() < 0.2:
        q = (1 << 53) - 1              # rounding up carries into the exponent
    half = 1 << (sh - 1)
    r = rng.choice([0, 1, half - 1, half, half + 1, (1 << sh) - 1, rng.getrandbits(sh)])
    z = (q << sh) + r
    return -z if rng.random() < 0.3 else z


def gen_scalar(rng, kind):
    if kind == "none":
        return None
    if kind == "bool":
        return rng.random() < 0.5
    if kind == "int":
        c = rng.randrange(6)
        if c == 0:
            return rng.randrange(-5, 6)
        if c == 1:
            return rng.choice([I64_MAX, I64_MAX + 1, U64_MAX, I64_MIN]) + rng.randrange(-2, 3)
        if c == 2:
            return rng.getrandbits(64)
        if c == 3:
            return -rng.getrandbits(63)
        if c == 4:
            return rng.getrandbits(62)
        return gen_round_int(rng)
    if kind == "float":
        c = rng.randrange(4)
        if c == 0:
            return bits_f64(rng.getrandbits(64))          # any bit pattern: NaNs and infinities included
        if c == 1:
            return rng.choice([0.0, -0.0, 1.5, -2.25, 1e300, 5e-324, float("inf"), float("nan")])
        return rng.randrange(-8, 9) / 4.0
    if kind == "str":
        return "".join(rng.choice(["a", "b", "A", " ", "é", '"', "\\", "\n", "中"]) for _ in range(rng.randrange(4)))
    if kind == "other":
        return rng.choice([(1,), {}, b"", object(), {1, 2}, "\udc80x"])
    raise AssertionError(kind)


KINDS = ["none", "bool", "int", "float", "str", "other"]


def gen_probe(rng, depth):
    if depth > 0 and rng.random() < 0.55:
        n = rng.randrange(5)
        if rng.random() < 0.7:
            # lists meant to be homogeneous: one element kind plus None
            k = rng.choice(["int", "int", "float", "str", "bool", "list"])
            items = []
            for _ in range(n):
                if rng.random() < 0.2:
                    items.append(None)
                elif k == "list":
                    items.append(gen_probe(rng, depth - 1) if rng.random() < 0.3 else [gen_scalar(rng, "int") for _ in range(rng.randrange(3))])
                elif k == "int" and rng.random() < 0.7:
                    items.append(rng.choice([rng.randrange(-3, 4), rng.getrandbits(62), I64_MAX, I64_MAX + 1, U64_MAX]))
                else:
                    items.append(gen_scalar(rng, k))
            return items
        return [gen_probe(rng, depth - 1) for _ in range(n)]
    return gen_scalar(rng, rng.choice(["none", "bool", "int", "int", "int", "float", "float", "str", "other"]))


def nontrivial(c):
    k = c[0]
    if k in ("none", "bool", "other"):
        return False
    if k == "int":
        return abs(c[1]) >= 2 ** 31
    if k == "str":
        return any(b >= 0x80 or b < 0x20 or b == 0x22 for b in c[1])
    return True


# --------------------------------------------------------------------------- engine agreement
def untag(v):
    if v is None:
        return None
    if "i" in v:
        return int(v["i"])
    if "u" in v:
        return int(v["u"])
    if "f" in v:
        return bits_f64(int(v["f"]))
    if "s" in v:
        return v["s"]
    if "b" in v:
        return bool(v["b"])
    if "l" in v:
        return [untag(x) for x in v["l"]]
    raise ValueError("value kind without a Python image: %r" % (v,))


def canon_tagged(v):
    """canonical text of a Rust-side value, integer kind erased"""
    if v is None:
        return "n"
    if "i" in v:
        return "i%d" % int(v["i"])
    if "u" in v:
        return "i%d" % int(v["u"])
    if "f" in v:
        return "f%d" % int(v["f"])
    if "s" in v:
        return "s" + hexs(v["s"])
    if "b" in v:
        return "T" if v["b"] else "F"
    if "l" in v:
        return "[" + ",".join(canon_tagged(x) for x in v["l"]) + "]"
    if "e" in v:
        return "e" + hexs(v["e"])
    return "?"


def canon_py(x):
    """canonical text of a value that came out of the Python binding"""
    if x is None:
        return "n"
    t = type(x)
    if t is bool:
        return "T" if x else "F"
    if t is int:
        return "i%d" % x
    if t is float:
        return "f%d" % f64_bits(x)
    if t is str:
        return "s" + hexs(x)
    if t is list:
        return "[" + ",".join(canon_py(y) for y in x) + "]"
    return "?%r" % (x,)


def tagged_mixed(v):
    if v is None or "l" not in v:
        return False
    ints = [int(x.get("i", x.get("u"))) for x in v["l"] if x is not None and ("i" in x or "u" in x)]
    if any(z <= I64_MAX for z in ints) and any(z > I64_MAX for z in ints):
        return True
    return any(tagged_mixed(x) for x in v["l"])


def world_class(w):
    vals = list(w["args"].values())
    for pm in w["dataset"]["props"].values():
        vals += list(pm.values())
    if any(tagged_mixed(v) for v in vals):
        return "K-py-mixed-int-list"
    return None


def make_graph_adapter(tf, dataset, subs):
    vtype = {int(k): v for k, v in dataset["vtype"].items()}
    props = {int(k): {n: untag(x) for n, x in pm.items()} for k, pm in dataset["props"].items()}
    edges = {int(k): em for k, em in dataset["edges"].items()}
    starts = dataset["starts"]

    def params_keep(ps, n):
        # world.rs params_keep: integer-valued parameters named lo*/hi* bound the vertex id
        for name, val in ps.items():
            if isinstance(val, int) and not isinstance(val, bool):
                if name.startswith("lo"):
                    if not (val <= n):
                        return False
                elif name.startswith("hi") and not (n <= val):
                    return False
        return True

    class GraphAdapter(tf.Adapter):
        def resolve_starting_vertices(self, edge_name, parameters, *a, **k):
            return [n for n in starts.get(edge_name, []) if params_keep(parameters, n)]

        def resolve_property(self, contexts, type_name, property_name, *a, **k):
            for ctx in contexts:
                v = ctx.active_vertex
                if v is None:
                    val = None
                elif property_name == "__typename":
                    val = vtype.get(v, "")
                else:
                    val = props.get(v, {}).get(property_name)
                yield (ctx, val)

        def resolve_neighbors(self, contexts, type_name, edge_name, parameters, *a, **k):
            for ctx in contexts:
                v = ctx.active_vertex
                if v is None:
                    ns = []
                else:
                    ns = [n for n in edges.get(v, {}).get(edge_name, []) if params_keep(parameters, n)]
                yield (ctx, ns)

        def resolve_coercion(self, contexts, type_name, coerce_to_type, *a, **k):
            for ctx in contexts:
                v = ctx.active_vertex
                ok = v is not None and vtype.get(v) in subs.get(coerce_to_type, [])
                yield (ctx, ok)

    return GraphAdapter()


def run_world(tf, schema, subs, w):
    rust = w["rust"]
    if rust["kind"] == "ROWS":
        rrows = [";".join("%s=%s" % (k, canon_tagged(r[k])) for k in sorted(r)) for r in rust["rows"]]
        rust_s = "ROWS:" + "|".join(rrows)
    else:
        rust_s = rust["kind"]
    msg = ""
    try:
        args = {k: untag(v) for k, v in w["args"].items()}
        adapter = make_graph_adapter(tf, w["dataset"], subs)
        rows = list(tf.execute_query(adapter, schema, w["query"], args))
        prows = [";".join("%s=%s" % (k, canon_py(r[k])) for k in sorted(r)) for r in rows]
        py_s = "ROWS:" + "|".join(prows)
    except tf.QueryArgumentsError as e:
        py_s, msg = "ARGERR", str(e)
    except BaseException as e:  # noqa: BLE001
        msg = type(e).__name__ + ": " + str(e)
        py_s = "PANIC" if type(e).__name__ == "PanicException" else "EXC:" + type(e).__name__
    return {"idx": w["idx"], "rust": rust_s, "py": py_s, "py_msg": msg[:400], "class": world_class(w),
            "rows": len(rust.get("rows", []))}


# --------------------------------------------------------------------------- main
def main():
    a = parse_argv(sys.argv[1:])
    tf = load_binding(a["--pkg"])
    rng = random.Random(int(a["--seed"]))
    observe_arg, observe_prop, misc_checks = make_probe_runner(tf)

    objs = fixed_probes()
    nfixed = len(objs)
    for _ in range(int(a["--nrandom"])):
        objs.append(gen_probe(rng, 3))
    probes = []
    for i, obj in enumerate(objs):
        c = classify(obj)
        arg_obs = observe_arg(obj)
        prop_obs = observe_prop(obj)
        r = repr(obj)
        probes.append({
            "name": ("fixed:" if i < nfixed else "random:") + (r if len(r) <= 160 else r[:157] + "..."),
            "pyobj": coq_pyobj(c),
            "arg": arg_obs,
            "prop": prop_obs,
            "nontrivial": nontrivial(c),
            "kind": c[0],
            "class": input_class(c),
            "oracle_failures": oracle(c, arg_obs, prop_obs),
        })

    worlds = []
    if a["--worlds"]:
        doc = json.load(open(a["--worlds"]))
        schema = tf.Schema(doc["schema"])
        for w in doc["worlds"]:
            worlds.append(run_world(tf, schema, doc["subs"], w))

    out = {"python": sys.version, "module": getattr(tf, "__file__", ""), "probes": probes, "worlds": worlds,
           "misc": misc_checks()}
    with open(a["--out"], "w") as f:
        json.dump(out, f)
    return 0


if __name__ == "__main__":
    sys.exit(main())
