"""C27 runner: generic proof stage + Rust harness (worlds and the Rust engine's rows), then
 (a) builds the pytrustfall extension module from /repo's CURRENT working tree (cargo, offline, target dir
     under /verif/.cache; /repo itself must stay untouched),
 (b) runs tools/c27_driver.py under the sandbox's python3 against that module (scratch package directory
     made with mkdtemp outside /repo and /verif, removed before returning),
 (c) ties the conversion probes to the Coq model PyConv.v (cases_*.v evaluated with vm_compute),
 (d) evaluates the property's direct oracles: conversion (convertible => faithful, non-convertible =>
     rejected) and engine agreement (rows of the Python binding == rows of the Rust engine).
"""
import json
import os
import shutil
import subprocess
import sys
import tempfile

import vlib
from generic import run_generic

TARGET_PY = os.path.join(vlib.CACHE, "target_py")
DRIVER = os.path.join(os.path.dirname(os.path.abspath(__file__)), "c27_driver.py")
HETERO_MSG = "Found elements of different (non-null) types in the same list"
SHARD = 1500


def repo_status():
    rc, out, _ = vlib.sh(["git", "-C", "/repo", "status", "--short"], timeout=120)
    return out if rc == 0 else "git status failed: " + out


def build_extension():
    env = dict(os.environ)
    env["CARGO_TARGET_DIR"] = TARGET_PY
    env["CARGO_NET_OFFLINE"] = "true"
    rc, out, dt = vlib.sh(["cargo", "build", "--release", "--offline", "-p", "pytrustfall"], cwd="/repo",
                          timeout=3000, env=env)
    lib = None
    if rc == 0:
        for name in ("libtrustfall.so", "libtrustfall.dylib", "trustfall.dll"):
            p = os.path.join(TARGET_PY, "release", name)
            if os.path.exists(p):
                lib = p
                break
    return rc, out, dt, lib


def make_package(lib):
    d = tempfile.mkdtemp(prefix="c27_pkg_")
    pkg = os.path.join(d, "trustfall")
    os.makedirs(pkg)
    src = "/repo/pytrustfall/trustfall"
    for f in os.listdir(src):
        if f.endswith(".py") or f.endswith(".pyi") or f == "py.typed":
            shutil.copy(os.path.join(src, f), os.path.join(pkg, f))
    shutil.copy(lib, os.path.join(pkg, "trustfall.so"))
    return d


def write_probe_cases(pdir, probes):
    """same file formats as harness/src/out.rs"""
    if os.path.isdir(pdir):
        shutil.rmtree(pdir)
    os.makedirs(pdir)
    cases = []
    for p in probes:
        inp = {"probe": p["name"], "pyobj": p["pyobj"]}
        cases.append({"input": dict(inp, channel="argument"), "coq": "show_res_e show_fv (arg_value %s)" % p["pyobj"],
                      "impl": p["arg"], "nontrivial": p["nontrivial"], "key": "A|" + p["pyobj"]})
        cases.append({"input": dict(inp, channel="property"), "coq": "show_res show_py (property_output %s)" % p["pyobj"],
                      "impl": p["prop"], "nontrivial": p["nontrivial"], "key": "P|" + p["pyobj"]})
    shards = 0
    with open(os.path.join(pdir, "impl.jsonl"), "w") as imp:
        for k in range(0, len(cases), SHARD):
            chunk = cases[k:k + SHARD]
            sk = k // SHARD
            shards = sk + 1
            with open(os.path.join(pdir, "cases_%d.v" % sk), "w") as f:
                f.write("From TF Require Import Values Show PyConv.\n")
                f.write("Set Printing Width 1000000000.\nSet Printing Depth 1000000000.\nOpen Scope string_scope.\n")
                f.write("Definition results : list string := [\n")
                for i, c in enumerate(chunk):
                    f.write("  (%s)%s\n" % (c["coq"], "" if i + 1 == len(chunk) else ";"))
                    imp.write(json.dumps({"shard": sk, "idx": i, "input": c["input"], "impl": c["impl"],
                                          "nontrivial": c["nontrivial"], "key": c["key"], "kind": "tie",
                                          "class": None}) + "\n")
                f.write("].\nEval vm_compute in results.\n")
    with open(os.path.join(pdir, "summary.json"), "w") as f:
        json.dump({"cases": len(cases), "shards": shards, "oracle_failures": [], "hist": {}, "extra": {}}, f)
    return len(cases)


def post(prop, cfg, tier, seed, outdir, tie, failures, problems):
    hist = tie["summary"].setdefault("hist", {})
    extra = tie["summary"].get("extra") or {}
    tie["summary"]["extra"] = extra

    def bump(k, n=1):
        hist[k] = hist.get(k, 0) + n

    worlds_path = os.path.join(outdir, "worlds.json")
    if not os.path.exists(worlds_path):
        problems.append({"kind": "harness-run", "problems": ["tfh_c27 wrote no worlds.json"]})
        return
    # ---- (a) extension module from the working tree
    before = repo_status()
    rc, out, dt, lib = build_extension()
    after = repo_status()
    extra["extension_build_s"] = round(dt, 1)
    if before != after:
        problems.append({"kind": "repo-touched", "problems": ["building pytrustfall changed `git -C /repo status`"],
                         "log_tail": after[-2000:]})
    if rc != 0 or lib is None:
        problems.append({"kind": "extension-build", "problems": ["cargo build -p pytrustfall failed (exit %s)" % rc],
                         "log_tail": out[-4000:]})
        return
    # ---- (b) driver under the sandbox's python3
    scratch = make_package(lib)
    res_path = os.path.join(outdir, "py_results.json")
    try:
        nrandom = cfg.get("nrandom", {}).get(tier, 100)
        with open(os.path.join(outdir, "driver.stderr"), "w") as errf:
            try:
                p = subprocess.run([sys.executable or "python3", DRIVER, "--pkg", scratch, "--worlds", worlds_path,
                                    "--out", res_path, "--seed", str(seed), "--nrandom", str(nrandom)],
                                   stdout=subprocess.PIPE, stderr=errf, timeout=3000, cwd=scratch,
                                   env={k: v for k, v in os.environ.items() if k != "PYTHONPATH"})
                drc, dout = p.returncode, p.stdout.decode("utf-8", "replace")
            except subprocess.TimeoutExpired:
                drc, dout = 124, "[timeout]"
        if drc != 0 or not os.path.exists(res_path):
            tail = open(os.path.join(outdir, "driver.stderr"), errors="replace").read()[-3000:]
            problems.append({"kind": "python-driver", "problems": ["c27_driver.py exited with %s" % drc],
                             "log_tail": dout[-1000:] + "\n" + tail})
            return
        res = json.load(open(res_path))
        if not res.get("module", "").startswith(scratch):
            problems.append({"kind": "python-driver", "problems": ["the driver imported trustfall from %r, not from the freshly built package" % res.get("module")]})
            return
    finally:
        shutil.rmtree(scratch, ignore_errors=True)
    extra["python"] = res["python"].split()[0]
    # ---- (c) probe tie against PyConv.v
    probes = res["probes"]
    pdir = os.path.join(outdir, "probes")
    write_probe_cases(pdir, probes)
    ptie = vlib.tie(pdir)
    for k in ("cases", "tie_cases", "oracle_cases", "order_only_differences", "distinct_nontrivial"):
        tie[k] = tie.get(k, 0) + ptie[k]
    tie["disagreements"] = tie["disagreements"] + ptie["disagreements"]
    tie["model_errors"] = tie["model_errors"] + ptie["model_errors"]
    tie["samples"] = ptie["samples"]
    if ptie["disagreements"]:
        problems.append({"kind": "correspondence", "problems": ["%d model/implementation disagreements on conversion probes" % len(ptie["disagreements"])],
                         "first": ptie["disagreements"][:3]})
    if ptie["model_errors"]:
        problems.append({"kind": "model-eval", "problems": ["model evaluation failed on %d probe shard(s)" % len(ptie["model_errors"])],
                         "first": ptie["model_errors"][:1]})
    for p in probes:
        bump("probe:" + p["kind"])
        bump("probe-arg:" + p["arg"].split(":")[0] + (":" + p["arg"].split(":")[1] if p["arg"].startswith("ERR:") else ""))
        bump("probe-prop:" + ("PANIC" if p["prop"] == "PANIC" else "returned"))
        if p["class"]:
            bump("probe-class:" + p["class"])
    # ---- (d1) conversion oracle (property text, evaluated by the driver without the model)
    for p in probes:
        for what in p["oracle_failures"]:
            failures.append({"what": what, "input": {"probe": p["name"], "pyobj": p["pyobj"]},
                             "detail": {"argument_channel": p["arg"], "property_channel": p["prop"]},
                             "class": p["class"]})
    for m in res["misc"]:
        bump("misc:" + ("rejected" if m["rejected"] else "NOT-rejected"))
        if not m["rejected"]:
            failures.append({"what": "malformed call was not rejected with an error: " + m["name"],
                             "input": {"call": m["name"]}, "detail": m, "class": None})
    # ---- (d2) engine agreement
    doc = json.load(open(worlds_path))
    by_idx = {w["idx"]: w for w in doc["worlds"]}
    if len(res["worlds"]) != len(doc["worlds"]):
        problems.append({"kind": "python-driver", "problems": ["driver ran %d of %d worlds" % (len(res["worlds"]), len(doc["worlds"]))]})
    agree_rows = 0
    for w in res["worlds"]:
        if w["rust"] == w["py"]:
            bump("world:agree")
            if w["rows"] > 0:
                agree_rows += 1
                bump("world:agree-with-rows")
            continue
        bump("world:differ")
        src = by_idx.get(w["idx"], {})
        cls = w["class"] if (w["class"] and HETERO_MSG in w.get("py_msg", "")) else None
        failures.append({"what": "the Python binding's result differs from the Rust engine's",
                         "input": {"query": src.get("query"), "args": src.get("args"), "dataset": src.get("dataset"),
                                   "world_idx": w["idx"], "worlds_seed": doc.get("seed")},
                         "detail": {"rust": w["rust"][:2000], "python": w["py"][:2000], "python_message": w.get("py_msg")},
                         "class": cls})
    extra["worlds"] = len(res["worlds"])
    extra["worlds_agreeing_with_rows"] = agree_rows
    extra["probes"] = len(probes)
    if res["worlds"] and agree_rows == 0:
        problems.append({"kind": "vacuous", "problems": ["no world with a non-empty result agreed between the Python binding and the Rust engine"]})


def run(prop, cfg, tier, seed, t0):
    return run_generic(prop, cfg, tier, seed, t0, post=post)
