#!/bin/bash
# usage: confirm_seed.sh <mutation dir (patch.diff, demo.rs, meta.json)> <seed id> [crate]
# Confirms in a scratch worktree of /repo that the change compiles, passes the crate's test suite,
# and that the demonstration fails with the change and passes without it; then stores it under
# /verif/seeded/<seed id>/ with the confirmation log.
set -u
M=$1; ID=$2; CRATE=${3:-trustfall_core}
FEAT="--features __private"; [ "$CRATE" = trustfall_core ] || FEAT=""
WT=/tmp/confirm_wt
OUT=/verif/seeded/$ID
mkdir -p $OUT
[ -d $WT ] || git -C /repo worktree add -q --detach $WT HEAD
cd $WT && git checkout -q --detach $(git -C /repo rev-parse HEAD) && git checkout -- . && git clean -fdq -e target
export CARGO_NET_OFFLINE=true
LOG=$OUT/confirm.log; : > $LOG
DEMO=$(ls $M/demo*.rs 2>/dev/null | head -1)
mkdir -p $CRATE/tests; cp $DEMO $CRATE/tests/seed_demo.rs
echo "## demo on clean tree" >> $LOG
timeout 1800 cargo test -p $CRATE --offline $FEAT --test seed_demo >> $LOG 2>&1; RC_CLEAN=$?
git apply $M/patch.diff || { echo "patch does not apply" >> $LOG; exit 1; }
echo "## demo with change" >> $LOG
timeout 1800 cargo test -p $CRATE --offline $FEAT --test seed_demo >> $LOG 2>&1; RC_MUT=$?
rm -f $CRATE/tests/seed_demo.rs
echo "## existing test suite with change" >> $LOG
timeout 3000 cargo test -p $CRATE --offline >> $LOG 2>&1; RC_SUITE=$?
git checkout -- . ; git clean -fdq -e target
cp $M/patch.diff $OUT/patch.diff; cp $DEMO $OUT/demo.rs; [ -f $M/README.md ] && cp $M/README.md $OUT/README.md
python3 - <<PY
import json
m=json.load(open("$M/meta.json"))
m["confirmed_by_coordinator"]={"demo_rc_clean_tree":$RC_CLEAN,"demo_rc_with_change":$RC_MUT,"existing_suite_rc_with_change":$RC_SUITE,
  "ok": ($RC_CLEAN==0 and $RC_MUT!=0 and $RC_SUITE==0),
  "commands":["cargo test -p $CRATE --offline $FEAT --test seed_demo (clean, then with patch)","cargo test -p $CRATE --offline (with patch)"]}
json.dump(m,open("$OUT/meta.json","w"),indent=1)
print("$ID", m["confirmed_by_coordinator"])
PY
