#!/usr/bin/env python3
"""usage: tools/coqmake.py [-k] [target.vo ...]  — robust incremental build of the Coq development."""
import os, sys
sys.path.insert(0, os.path.dirname(os.path.abspath(__file__)))
import vlib
args = sys.argv[1:]
k = "-k" in args
args = [a for a in args if a != "-k"]
ok, out, dt = vlib.coq_build(args or None, keep_going=k)
import re
m = list(re.finditer(r'^File "[^"]+", line \d+.*?(?=^File |\Z)', out, re.M | re.S))
if not ok:
    print(out[-3000:] if not m else "\n".join(x.group(0)[:1800] for x in m[:3]))
    sys.exit(1)
print("ok %.1fs" % dt)
