#!/usr/bin/env python3
"""Splice the build report (tools/design11.tmpl.md with generated tables) into DESIGN.md."""
import json, os, glob, sys, re
V = os.path.dirname(os.path.dirname(os.path.abspath(__file__)))
sys.path.insert(0, os.path.join(V, "tools"))
import props

def find(d, k):
    if isinstance(d, dict):
        if k in d:
            return d[k]
        for b in d.values():
            r = find(b, k)
            if r is not None:
                return r
    return None

def esc(s):
    return str(s).replace("|", "\\|").replace("\n", " ")

titles = {json.loads(l)["id"]: json.loads(l)["title"] for l in open(os.path.join(V, "properties.jsonl"))}

def status_table():
    rows = ["| id | property | theorems | quick evaluations | what the proof covers / what is left to the tie and oracles |", "|---|---|---|---|---|"]
    for pid in sorted(titles):
        cfg = props.PROPS.get(pid)
        if not cfg or pid not in props.READY:
            rows.append("| %s | %s | – | – | not claimed (see MANIFEST not_applicable) |" % (pid, esc(titles[pid])))
            continue
        ev = {}
        p = os.path.join(V, "evidence", pid + ".json")
        if os.path.exists(p):
            ev = json.load(open(p))
        th = find(ev, "theorems") or []
        n = find(ev, "evaluations")
        note = cfg.get("level_note", "")
        rows.append("| %s | %s | %d | %s | %s |" % (pid, esc(titles[pid]), len(th), n if n is not None else "–", esc(note)))
    return "\n".join(rows)

def findings_table():
    k = json.load(open(os.path.join(V, "known_findings.json")))
    rows = ["| id | property | input class | what fails | status |", "|---|---|---|---|---|"]
    seen = set()
    for f in k["findings"]:
        key = (f.get("id"), f["class"])
        what = f.get("what", "")
        if key in seen:
            what = "(same defect, seen through this property too)"
        seen.add(key)
        if len(what) > 420:
            what = what[:417] + "..."
        rows.append("| %s | %s | `%s` | %s | known |" % (f.get("id", ""), f["property"], f["class"], esc(what)))
    for f in k.get("fixed", []):
        rows.append("| | | | %s | fixed |" % esc(f))
    return "\n".join(rows)

def seed_matrix():
    rows = ["| seed | property | change (as its author describes it) | confirmed | checks run against it → outcome |", "|---|---|---|---|---|"]
    for d in sorted(glob.glob(os.path.join(V, "seeded", "*"))):
        mp = os.path.join(d, "meta.json")
        if not os.path.exists(mp):
            continue
        m = json.load(open(mp))
        conf = m.get("confirmed_by_coordinator", {}).get("ok")
        det = ""
        dp = os.path.join(d, "detection.json")
        if os.path.exists(dp):
            dj = json.load(open(dp))
            parts = []
            for p, r in dj.items():
                if r.get("note"):
                    parts.append("%s: %s" % (p, r["note"]))
                elif r["violation_lines"]:
                    parts.append("%s: **VIOLATION**%s" % (p, " (no-failing-input-found)" if r["no_failing_input_found"] else " with failing input"))
                else:
                    parts.append("%s: not detected (exit %s)" % (p, r["exit"]))
            det = "; ".join(parts)
        what = m.get("what_it_breaks", "")
        if len(what) > 300:
            what = what[:297] + "..."
        rows.append("| %s | %s | %s | %s | %s |" % (os.path.basename(d), m.get("property", ""), esc(what), "yes" if conf else "NO", det or "not yet run"))
    return "\n".join(rows)

tmpl = open(os.path.join(V, "tools", "design11.tmpl.md")).read()
def counts():
    n = 0
    for pid in props.READY:
        pth = os.path.join(V, "evidence", pid + ".json")
        if os.path.exists(pth):
            n += len(find(json.load(open(pth)), "theorems") or [])
    files = glob.glob(os.path.join(V, "coq", "theories", "*.v")) + glob.glob(os.path.join(V, "coq", "theories", "Properties", "*.v"))
    lines = sum(len(open(f, errors="replace").read().splitlines()) for f in files)
    return n, lines, len(files)

NT, NL, NF = counts()
tmpl = open(os.path.join(V, "tools", "design11.tmpl.md")).read()
tmpl = tmpl.replace("<<NTHEOREMS>>", str(NT)).replace("<<NLINES>>", str(NL)).replace("<<NFILES>>", str(NF))
body = tmpl.replace("<<STATUS_TABLE>>", status_table()).replace("<<FINDINGS_TABLE>>", findings_table()).replace("<<SEED_MATRIX>>", seed_matrix())
B, E = "<!-- BUILD-REPORT-BEGIN -->", "<!-- BUILD-REPORT-END -->"
dp = os.path.join(V, "DESIGN.md")
d = open(dp).read()
block = B + "\n" + body.rstrip() + "\n" + E + "\n"
if B in d:
    d = d[:d.index(B)] + block + d[d.index(E) + len(E) + 1:]
else:
    marker = "## Appendix A"
    i = d.index(marker)
    d = d[:i] + block + "\n---------------------------------------------------------------------------------------------------\n\n" + d[i:]
open(dp, "w").write(d)
print("DESIGN.md build report updated")
