#!/usr/bin/env python3
"""Regenerate /verif/MANIFEST.json from tools/props.py (run after editing props.py)."""
import json
import os
import sys

sys.path.insert(0, os.path.dirname(os.path.abspath(__file__)))
from props import PROPS as ALL_PROPS, NOT_APPLICABLE, HOOK_COMMITS, READY  # noqa: E402
PROPS = {k: v for k, v in ALL_PROPS.items() if k in READY}

VERIF = os.path.dirname(os.path.dirname(os.path.abspath(__file__)))
props = [json.loads(l) for l in open(os.path.join(VERIF, "properties.jsonl"))]
m = {
    "version": 1,
    "setup_cmd": "./setup.sh",
    "hooks": {
        "guard": "--cfg trustfall_verif",
        "enable": "RUSTFLAGS=\"--cfg trustfall_verif\" (harness/.cargo/config.toml; the harness depends on /repo/trustfall_core etc. by path, so every build reads /repo's working tree)",
        "baseline_off_cmd": "cd /repo && cargo test --workspace --no-fail-fast --offline",
        "source_commits": HOOK_COMMITS,
        "add_only": True,
    },
    "engines": [{
        "name": "coq-model+tie",
        "path": "coq/ harness/ tools/ check",
        "serves_properties": sorted(PROPS),
        "kind_free_text": "Coq 8.16 theorems about a hand-written Gallina transcription of the Rust code; a differential correspondence harness (Rust, path-dependency on /repo) runs the model (vm_compute) and the implementation on the same generated inputs on every check; direct property oracles on the implementation provide replays",
    }],
    "checks": [],
    "not_applicable": [],
    "notes": "See DESIGN.md. known_findings.json lists recorded genuine defects; seeded/ holds confirmed property-breaking changes used to test the checks.",
}
for p in props:
    pid = p["id"]
    if pid in PROPS:
        c = PROPS[pid]
        m["checks"].append({
            "property_id": pid,
            "quick_cmd": "./check %s --tier quick" % pid,
            "thorough_cmd": "./check %s --tier thorough" % pid,
            "evidence_file": "evidence/%s.json" % pid,
            "replay_cmd_template": "./check %s --replay {path}" % pid,
            "engine": "coq-model+tie",
            "level_claimed": {"category": (c.get("level", "proof") if c.get("level", "proof") in ("exploration", "fault_enumeration", "model_checking", "proof", "translation_validation", "other") else "proof"), "text": c["level_text"], "design_ref": c.get("design_ref", "DESIGN.md section 6, " + pid)},
            "level_note": c["level_note"],
            "technique": c.get("technique", "machine-checked proof in Coq (Rocq) about a Gallina model + differential correspondence check against /repo"),
        })
    else:
        m["not_applicable"].append({"property_id": pid, "reason": NOT_APPLICABLE.get(pid, "not yet built: no Coq model/check for this property exists in /verif at this commit (planned in DESIGN.md section 6)")})
json.dump(m, open(os.path.join(VERIF, "MANIFEST.json"), "w"), indent=1)
print("MANIFEST.json: %d checks, %d not_applicable" % (len(m["checks"]), len(m["not_applicable"])))
