"""Generic property runner: proof stage + harness build + tie + direct oracle + report."""
import json
import os
import time

import vlib


def classify(prop, failures):
    known = [k for k in vlib.load_known() if k.get("property") == prop and k.get("status") == "known"]
    by_class = {k["class"]: k for k in known}
    hits, unknown = {}, []
    for f in failures:
        c = f.get("class")
        if c in by_class:
            hits.setdefault(c, []).append(f)
        else:
            unknown.append(f)
    return by_class, hits, unknown


def run_generic(prop, cfg, tier, seed, t0, post=None):
    level = cfg.get("level", "proof")
    if level not in ("exploration", "fault_enumeration", "model_checking", "proof", "translation_validation", "other"):
        level = "proof"
    problems = []          # things that break the proof or the correspondence (no input yet)
    notes = []
    # ---- 1. proof stage
    pr = vlib.coq_check_property(cfg["coq"])
    if not pr["ok"]:
        problems.append({"kind": "proof", "theorem_file": cfg["coq"], "problems": pr["problems"],
                         "log_tail": pr["log"][-2500:]})
    # ---- 2. harness build from /repo's working tree
    hbin = cfg.get("bin", "tfh")
    ok, out, build_s = vlib.harness_build(bin=hbin)
    failures, tie, search_info = [], None, None
    outdir = os.path.join(vlib.WORK, prop)
    if not ok:
        problems.append({"kind": "harness-build", "problems": ["cargo build of the harness against /repo failed"],
                         "log_tail": out[-4000:]})
    else:
        n = cfg["n"][tier]
        extra = list(cfg.get("extra", {}).get(tier, []))
        rc, hout, run_s = vlib.harness_run(cfg["sub"], seed, n, outdir, extra, bin=hbin)
        if rc != 0 or not os.path.exists(os.path.join(outdir, "summary.json")):
            problems.append({"kind": "harness-run", "problems": ["harness exited with %s" % rc], "log_tail": hout[-4000:]})
        else:
            tie = vlib.tie(outdir, cfg.get("canon"))
            failures = tie["summary"]["oracle_failures"]
            if tie["disagreements"]:
                problems.append({"kind": "correspondence", "problems": ["%d model/implementation disagreements" % len(tie["disagreements"])],
                                 "first": tie["disagreements"][:3]})
            if tie["model_errors"]:
                problems.append({"kind": "model-eval", "problems": ["model evaluation failed on %d shard(s)" % len(tie["model_errors"])],
                                 "first": tie["model_errors"][:1]})
            if post is not None:
                post(prop, cfg, tier, seed, outdir, tie, failures, problems)
    by_class, hits, unknown = classify(prop, failures)
    # ---- 3. search for a failing input when a proof / the correspondence broke
    if problems and not unknown and ok and cfg.get("search", True):
        n2 = cfg["n"][tier] * cfg.get("search_factor", 10)
        sdir = outdir + ".search"
        rc, hout, _ = vlib.harness_run(cfg["sub"], seed + 1, n2, sdir, list(cfg.get("extra", {}).get(tier, [])) + ["--oracle-only"], bin=hbin)
        if rc == 0 and os.path.exists(os.path.join(sdir, "summary.json")):
            s = json.load(open(os.path.join(sdir, "summary.json")))
            _, hits2, unknown2 = classify(prop, s["oracle_failures"])
            unknown += unknown2
            search_info = {"seed": seed + 1, "n": n2, "oracle_failures": len(s["oracle_failures"])}
    # ---- 4. evidence
    wall = time.time() - t0
    violations = (1 if unknown else 0) + (1 if (problems and not unknown) else 0)
    cov = {
        "obligations": len(pr["theorems"]),
        "discharged": len(pr["theorems"]) if pr["ok"] else 0,
        "checker_cmd": "make -C coq %s && coqc -Q theories TF %s (Print Assumptions audited against the allow-list; forbidden-token scan over all dependencies)" % (cfg["coq"][:-2] + ".vo", cfg["coq"]),
        "trusted_base": cfg.get("trusted_base", []),
        "theorems": pr["theorems"],
        "assumptions_per_theorem": pr["assumptions"],
        "proof_stage_ok": pr["ok"],
        "rule": cfg.get("rule", ""),
        "evaluations": tie["cases"] if tie else 0,
        "distinct_nontrivial": tie["distinct_nontrivial"] if tie else 0,
        "samples": tie["samples"] if tie else [],
        "tie_disagreements": len(tie["disagreements"]) if tie else None,
        "tie_cases": tie["tie_cases"] if tie else 0,
        "spec_oracle_cases": tie["oracle_cases"] if tie else 0,
        "order_only_differences": tie["order_only_differences"] if tie else 0,
        "worlds_meeting_theorem_hypotheses": (tie.get("model_info") or {}) if tie else {},
        "oracle_failures_total": len(failures),
        "oracle_failures_known": {c: len(v) for c, v in hits.items()},
        "input_distribution": (tie["summary"]["hist"] if tie else {}),
        "extra": (tie["summary"].get("extra") if tie else {}),
        "harness_build_s": round(build_s, 1),
        "search": search_info,
        "explanation": cfg.get("explanation", ""),
    }
    vlib.write_evidence(prop, tier, seed, level, cov, cfg.get("assumptions", []), wall, violations)
    # ---- 5. report
    for c, fs in hits.items():
        k = by_class[c]
        print("KNOWN-FINDING: property=%s %s (class %s; %d input(s) this run, e.g. %s)" % (
            prop, k.get("what", ""), c, len(fs), json.dumps(fs[0].get("input"))[:200]))
    if unknown:
        f = unknown[0]
        path = vlib.write_replay(prop, {"property": prop, "kind": "failing-input", "seed": seed, "tier": tier,
                                       "failure": f, "also_broken": problems, "count": len(unknown)})
        print("VIOLATION property=%s replay=%s" % (prop, path))
        return 1
    if problems:
        path = vlib.write_replay(prop, {"property": prop, "kind": "no-failing-input", "seed": seed, "tier": tier,
                                       "no_longer_checks": problems, "search": search_info})
        for p in problems:
            print("# broken: %s: %s" % (p["kind"], "; ".join(p["problems"])))
        print("VIOLATION property=%s replay=%s no-failing-input-found" % (prop, path))
        return 1
    print("OK property=%s tier=%s theorems=%d cases=%d nontrivial=%d wall=%.1fs" % (
        prop, tier, len(pr["theorems"]), tie["cases"] if tie else 0, tie["distinct_nontrivial"] if tie else 0, wall))
    return 0
