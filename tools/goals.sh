#!/bin/bash
# usage: goals.sh <file.v> <line>   -- shows the proof state after <line> lines of the file
f=$1; n=$2
d=$(mktemp -d /tmp/goals.XXXX)
head -n "$n" "$f" > $d/G.v
echo "Show. Abort All." >> $d/G.v
(cd /verif/coq && timeout 120 coqc -Q theories TF $d/G.v 2>&1 | tail -${3:-40})
rm -rf $d
