"""Per-property configuration for ./check."""

TB_COMMON = [
    "Coq 8.16.1 kernel (coqc); no native_compute; vm_compute only inside the correspondence check and in closed Example/refutation witnesses",
    "hand-written Gallina transcription of the Rust code (modelled, not verified); tied to /repo only by the differential correspondence run of this check",
    "the Rust harness (/verif/harness), its generators and printers, tools/*.py, and the Show.v / show.rs canonical renderers",
]

PROPS = {
    "C06": {
        "coq": "theories/Properties/C06.v",
        "sub": "c06",
        "n": {"quick": 44000, "thorough": 400000},
        "level": "proof",
        "search_factor": 1,
        "rule": "candidate universe = {Impossible, All, Single v (null + 12 boundary values), Multiple of 0-5 values (empty, singletons, all ordered pairs incl. duplicates over {null, I64 0, U64 0, U64 2^63, \"a\"}, all triples over {null, I64 1, U64 1}, seeded random), Range over every bound-kind combination 3x3 x null_included over 12 non-null boundary values (I64 -1/0/1/MAX, U64 0/1/i64::MAX/2^63, \"\"/\"a\"/\"b\", a float) = 1250 ranges}. Tie (model vs hooks): Range::new on all 27x27 bound combinations incl. null bounds (panic), Range::degenerate+contains on every range x 18 probes, Range::intersect on every start x start and end x end combination, normalize on the whole universe, exclude on (non-range x every probe) and (range x {null, bound values in both integer kinds, 2 seeded probes}), intersect on ALL ordered pairs of non-range candidates plus n seeded pairs involving a Range (half Range x non-Range in either order, half Range x Range). A case is non-trivial unless an intersect operand is Impossible/All, normalize is applied to Impossible/Single/All, or exclude to Impossible; distinct by rendered operation+operands. Direct oracle (implementation only, every run): ALL ~1.8M ordered pairs of the universe x 18 probe values for intersect, the whole universe for normalize, universe x 18 x 18 for exclude.",
        "trusted_base": TB_COMMON + [
            "Cand.v instantiates the generic candidate code with FieldValue's == / partial_cmp as transcribed in Values.v (tied by C08); comparisons between different non-integer variants order by discriminant",
            "debug_assert! sites of Range::intersect are modelled as panics (the harness profile enables debug-assertions); proved unreachable on well-formed ranges",
        ],
        "assumptions": ["range bounds are not null (asserted by Range::new / with_start / with_end; Range also derives Deserialize, which is outside this property)", "floats are finite (FieldValue's documented invariant)"],
        "level_text": "Exactness of intersect (mem (a ∩ b) x = mem a x && mem b x for every probe incl. null), of normalize, and the two inclusion statements for exclude_single_value are Coq theorems over ANY carrier whose partial_cmp is a total preorder comparator consistent with == and whose null test is == default(), for ALL candidates (any list length, any bounds) with non-null range bounds; discharged for FieldValue with the C08 order laws, and restated as closed theorems about the tied instance (f_intersect/f_normalize/f_exclude built from the transcribed fv_eq/fv_cmp) on well-formed values. The operations are proved panic-free (debug_assert!, unreachable!, expect) and to preserve well-formedness; Range::new panics exactly on a null bound. The tie re-runs the hooked functions of the current /repo build against the model on ~68k cases per run and the set-theoretic statements are checked directly on all ~1.8M candidate pairs of the universe x 18 probes.",
        "level_note": "Trusted: Coq kernel; the transcription Cand.v (tied by the differential run only) over Values.v; the harness and renderers. Range::with_start/with_end have no hook (same assert block as Range::new; modelled, not tied).",
    },
    "C07": {
        "coq": "theories/Properties/C07.v",
        "sub": "c07",
        "n": {"quick": 20, "thorough": 120},
        "level": "proof",
        "rule": "direct: all 11 operator functions reachable through op_direct on every ordered pair over the 57-element C08 boundary set plus 29 extra values (regex-pattern strings valid and invalid, lists of strings / mixed-sign ints / floats / nulls / nested, non-finite floats) plus n seeded random values; dispatch: all 20 operations x {static table, tagged table with Some} x active in {true,false} on every ordered pair of a 24-value set (+ n/4 random), plus unary path and tagged None on every value. A pair is non-trivial when it lies inside the documented domain of at least one operator other than `=` (orderable pair or null, string/null pair, list/null collection); distinct by rendered pair. The oracle recomputes every in-domain result from first principles (i128 comparison, byte-wise string ops, structural equality) and checks exact complement / table wiring / optional survival on the implementation.",
        "trusted_base": TB_COMMON + [
            "IEEE-754: native f64 comparison equals integer comparison of the sign-magnitude keys (f64_key), NaN compares false; checked densely by the tie",
            "Rust str ordering / contains / starts_with / ends_with are byte-wise (String.compare, prefix on bytes)",
            "the regex crate is abstracted as a function re_match : pattern -> haystack -> option bool (None = does not compile); regex theorems are relative to it; the tie instantiates it per case with a finite table computed by the real regex crate",
        ],
        "assumptions": ["floats are finite (FieldValue's documented invariant)", "regex behaviour is taken from the regex crate (abstract re_match)"],
        "level_text": "Coq theorems over ALL operands (unbounded): equals = value equality eqT and never panics on well-formed values; <,<=,>,>= equal numeric comparison on Z for all 2^128 integer pairs of either signedness, byte-lexicographic order on strings, key order on finite floats, false when either side is null; exact characterisation of the operand pairs on which the slow-path unreachable! arms fire (cmp_defined), unreachable on orderable scalar pairs; prefix/suffix/substring = existential definitions; one_of/contains = membership up to eqT; negation_exact for every negated operation in both dispatch tables and the unary path; table wiring. Known genuine defect F5 (ordering operators panic on list operands the frontend accepts) is proved as a refutation witness and reported as KNOWN-FINDING. The tie re-runs every operator of the current /repo build against the model on ~11k pairs x 11 functions and ~600 pairs x 80 table entries per run.",
        "level_note": "Trusted: Coq kernel; the transcription Ops.v/Values.v (tied by the differential run only); IEEE-754 finite comparison as key comparison; byte-wise str operations; the regex crate (abstracted); the harness and renderers.",
    },
    "C08": {
        "coq": "theories/Properties/C08.v",
        "sub": "c08",
        "n": {"quick": 40, "thorough": 160},
        "level": "proof",
        "rule": "all ordered pairs over a 57-element boundary set (every variant; i64/u64 limits and the 2^63 boundary; +-0.0, subnormal, 2^53+1, f64::MAX; empty/ASCII/UTF-8 strings; nested and mixed-int lists) plus n seeded random values; a pair is non-trivial when both sides are of the same variant or both integers (the cases where the comparison is not decided by the discriminant); distinct by rendered pair. The oracle additionally checks all eight laws on every triple on the implementation.",
        "trusted_base": TB_COMMON + [
            "IEEE-754: comparison of finite binary64 values equals integer comparison of the sign-magnitude key of their bit patterns (f64_key); checked densely against f64::partial_cmp by the tie",
            "Rust str ordering is byte-wise lexicographic (String.compare on bytes)",
        ],
        "assumptions": ["floats are finite (FieldValue's documented invariant)"],
        "level_text": "All eight order/equality laws are Coq theorems over ALL field values (any nesting, all 2^64 integers of either signedness, every finite float bit pattern), closed under the global context; the transcribed PartialEq/PartialOrd are proved panic-free and equal to the total functions on well-formed values. The tie re-runs == and partial_cmp of the current /repo build against the model on ~9k pairs per run, and the laws themselves are checked on ~900k implementation triples.",
        "level_note": "Trusted: Coq kernel; the transcription Values.v (tied by the differential run only); IEEE-754 finite comparison modelled as sign-magnitude key comparison; byte-wise str ordering; the harness and renderers.",
    },
    "C17": {
        "coq": "theories/Properties/C17.v",
        "sub": "c17",
        "n": {"quick": 40, "thorough": 400},
        "level": "proof",
        "rule": "exhaustive family every run: all 90 types over base names Int/String/Foo x list depth <= 3 x every nullability pattern (2+4+8+16 shapes): construction through new_named_type/new_list_type, all accessors, with_nullability, one more list level; all 8 100 ordered pairs for intersect + is_scalar_only_subtype + equal_ignoring_nullability; every type x an 85-value set (the C08 boundary values, nested lists to depth 4, Enum-containing lists under catch_unwind) for is_valid_value; plus the two extreme 30-level types and n seeded random types of up to 30 levels with same-shape partners and type-directed values (new_list_type at 30 levels panics in both). A pair is non-trivial when base name and list depth agree (the operations are not decided by the shape check); a validity case when it is not a plain `false` or both type and value are lists; distinct by rendered input. The oracle checks every law on the implementation on all pairs/triples of the family (729 000 triples) and on a 40-type deep sample.",
        "trusted_base": TB_COMMON + [
            "types are identified with (base name, u64 mask) as reported by the __verif_mask hook; Arc<str> interning of the four builtin names is not modelled (it does not affect equality)",
            "Rust str equality / u64 bit operations have their standard meaning (String.eqb on bytes; N.land/N.lor/N.shiftl/N.shiftr, with the single possibly-truncating shift written as trunc64)",
        ],
        "assumptions": ["types are well formed = built by new_named_type/new_list_type/parse (proved equivalent to the mask encoding <= 30 list levels)"],
        "level_text": "All lattice laws are Coq theorems over ALL well-formed types (every list depth <= 30, every nullability pattern, every base name) and ALL field values, closed under the global context: intersect is commutative, idempotent, associative, a lower bound, the greatest lower bound, and None exactly when base or list depth differ; is_scalar_only_subtype is a partial order; equal_ignoring_nullability is an equivalence implied by subtyping; validity is monotone (all values) and validity for a meet is validity for both (enum-free values); intersect never panics, new_list_type panics exactly at 30 levels, is_valid_value panics exactly when its scan reaches an Enum (defect F6, accounted under C12). The mask-level transcription (with fuel 33) is proved equal to structural recursion on an abstract type view. The tie re-runs the real functions against the model on ~17k cases per run, exhaustively on the 90-type family.",
        "level_note": "Trusted: Coq kernel; the transcription Ty.v (tied by the differential run only); the (name, mask) reading of Type through the __verif_mask hook; the harness and renderers.",
    },
    "C18": {
        "coq": "theories/Properties/C18.v",
        "sub": "c18",
        "bin": "tfh_c18",
        "n": {"quick": 4000, "thorough": 60000},
        "level": "proof",
        "search_factor": 2,
        "rule": "single-field structs `{x: T}` for 40 target types T (i8..u64, isize, usize, f32, f64, bool, String, (), Option/Vec/tuple combinations incl. Option<Option<i64>>, Vec<Option<u8>>, Vec<Vec<u16>>, Vec<(i64,String)>, ((i8,u8),String)) x a 156-value boundary set (every iN/uN limit and limit+-1 as Int64 and as Uint64 when representable; 0, -1, 2^24+-1, 2^53, 2^53+1; floats +-0.0, 1.5, 1e300, f64::MAX, subnormals, the f32 limits and rounding ties, inf, NaN; strings; bools; Null; Enum; 37 lists incl. wrong tuple lengths, nulls, nested lists, enums at every position) plus n seeded type-directed random values; multi-field structs M1/M2/M3 over the full product of per-field {absent, good, out-of-range, wrong kind, null, Enum} choices with extra keys sorted before/after (2 247 rows); 8 parsed queries giving 16 real EdgeParameters maps decoded into 3-4 structs each. A case is non-trivial unless the implementation's answer is a plain kind mismatch (`ERR:type`) on a value containing no non-empty list; distinct by (struct, source, row). The oracle (i128 / bit arithmetic, no model) checks on every case: an integer decodes to exactly itself iff it fits, every Ok field equals its source value, every representable row decodes, no panic.",
        "trusted_base": TB_COMMON + [
            "serde 1.0.229 behaviour is MODELLED third-party code: which visit_* each FieldValue variant reaches and what the impl_deserialize_num!/Bool/String/Option/Vec/Tuple/Unit/IgnoredAny visitors, serde_derive's struct visitor and serde::__private::de::missing_field do with it (Decode.v transcribes serde_core/src/de/impls.rs); tied to the real crates only by the differential run",
            "IEEE-754 `as` casts (i64/u64 -> f64/f32, f64 -> f32) are modelled as round-to-nearest-even on dyadic numbers (round_mag); f32 NaN payloads are not modelled (all f32 NaNs render alike)",
            "the deserializer Error is classified by message text (range / type / len / missing) in the harness",
            "isize/usize are identified with i64/u64 (64-bit platform)",
        ],
        "assumptions": ["row values are well-formed FieldValues (i64/u64 ranges); floats finite for the f32-narrowing statement (FieldValue's documented invariant)", "a row is a map: keys are distinct (BTreeMap)"],
        "level_text": "Coq theorems over ALL row values and ALL targets (any nesting of Option/Vec/tuples; all 8 integer targets x both integer kinds x all 2^64 integers of either signedness), closed under the global context: an in-range integer decodes to exactly itself and an out-of-range one is a returned Err(range), never a wrapped/truncated number (decode_int_range/int_ok/int_spec, also at row level); outside the two F16 classes every Ok result denotes the row value (decode_exact: same integer/string/bool/float bits, None iff null, element-wise lists, f32 numerically equal to the f64); the full-strength statement is refuted with the witnesses Int64(2^53+1)->f64, Uint64(u64::MAX)->f64, Float64(1e300)->f32=inf; the classes are characterised exactly (the `as` result equals the source iff the integer has <= 53/24 significant bits, resp. iff some finite binary32 equals the binary64 value) from a proved round-to-nearest-even model valid for any precision; decoding panics iff it reaches a FieldValue::Enum (todo!(), new finding F19) and otherwise returns Ok/Err; Null into Option is None and into anything else an Err, tuple length mismatch is an Err, no kind coercion; rows: every present field holds the decoding of its row value, an absent key is accepted only for Option fields (None), extra keys are ignored without inspecting their value; edge parameters use the same function. The tie re-runs try_into_struct of the current /repo build (with the real serde) against the model on ~12k cases per run, including 18 real EdgeParameters maps from the frontend, and the oracle re-checks exactness of every result with i128/bit arithmetic.",
        "level_note": "Trusted: Coq kernel; the transcription Decode.v of trustfall's deserializers AND of the serde visitors they forward to (tied by the differential run only); IEEE-754 casts modelled as round-to-nearest-even; the harness and renderers.",
    },
}

TB_ENGINE = TB_COMMON + [
    "Exec.v is a hand transcription of execution.rs / filtering.rs::apply_filter / the DataContext helpers with lazy iterator pipelines modelled as list functions (pull order is not modelled); Sem.v is the specification",
    "the regex crate is an oracle (Section variable re_match; in the tie a finite table computed by the harness with the real crate)",
    "datasets: Graph.v::graph_of_dataset and harness world.rs::GraphAdapter are two implementations of the same finite-graph semantics (neighbours do not depend on the static type named in the call); the world schema is fixed (harness/src/world.rs), datasets/queries/arguments are generated",
]

PROPS["C01"] = {
    "coq": "theories/Properties/C01.v",
    "sub": "c01",
    "n": {"quick": 350, "thorough": 6000},
    "canon": "rows-multiset",
    "level": "proof",
    "rule": "each evaluation is one generated world: a random dataset (2-11 vertices, boundary integers of both signednesses, nulls, lists, duplicate neighbours, cycles) over the fixed 5-type schema, a grammar-generated query accepted by the real frontend (nesting depth <= 4 of plain/@optional/@recurse(1..3)/@fold edges, coercions, every filter operator with variables and tags incl. tags imported into folds and fold-count tags, @transform(count) with filters/outputs/tags, parameterised edges) and type-directed arguments (often drawn from the dataset so filters match). Every world is evaluated twice: Exec model vs interpret_ir (kind tie) and Sem specification vs interpret_ir (kind oracle), rows compared as multisets. Non-trivial = returned at least one row or used >= 2 of the edge/fold/tag features; distinct by query text.",
    "trusted_base": TB_ENGINE,
    "assumptions": ["adapter honours the contract (GraphAdapter does by construction)", "arguments accepted by the engine's own validation"],
    "level_text": "Specification-sanity theorems about Sem.v (missing-@optional scopes pass, filters keep exactly the satisfying rows, @recurse = reachability within d gated hops, with multiplicities = paths) are proved for all inputs; the engine-model-equals-specification theorem is proved in stages (see Properties/C01.v for exactly which fragment is closed). Independently of the proof, every run compares the REAL engine with the executable specification Sem.v on hundreds (thorough: thousands) of generated worlds, and the Exec.v transcription with the real engine on the same worlds.",
    "level_note": "Partial proof: the full exec = sem simulation is staged; what is not yet proved is covered only by the differential oracle. Trusted: Coq kernel, the transcriptions, the harness, the regex oracle table.",
}

PROPS["C04"] = {
    "coq": "theories/Properties/C04.v",
    "sub": "c04",
    "bin": "tfh_hints",
    "n": {"quick": 900, "thorough": 12000},
    "level": "proof",
    "search_factor": 3,
    "rule": "(filled in below)",
    "trusted_base": TB_ENGINE,
    "assumptions": [],
    "level_text": "Coq theorems over ALL row values and ALL targets (any nesting of Option/Vec/tuples; all 8 integer targets x both integer kinds x all 2^64 integers of either signedness), closed under the global context: an in-range integer decodes to exactly itself and an out-of-range one is a returned Err(range), never a wrapped/truncated number (decode_int_range/int_ok/int_spec, also at row level); outside the two F16 classes every Ok result denotes the row value (decode_exact: same integer/string/bool/float bits, None iff null, element-wise lists, f32 numerically equal to the f64); the full-strength statement is refuted with the witnesses Int64(2^53+1)->f64, Uint64(u64::MAX)->f64, Float64(1e300)->f32=inf; the classes are characterised exactly (the `as` result equals the source iff the integer has <= 53/24 significant bits, resp. iff some finite binary32 equals the binary64 value) from a proved round-to-nearest-even model valid for any precision; decoding panics iff it reaches a FieldValue::Enum (todo!(), new finding F19) and otherwise returns Ok/Err; Null into Option is None and into anything else an Err, tuple length mismatch is an Err, no kind coercion; rows: every present field holds the decoding of its row value, an absent key is accepted only for Option fields (None), extra keys are ignored without inspecting their value; edge parameters use the same function. The tie re-runs try_into_struct of the current /repo build (with the real serde) against the model on ~12k cases per run, including 18 real EdgeParameters maps from the frontend, and the oracle re-checks exactness of every result with i128/bit arithmetic.",
    "level_note": "(filled in below)",
}

PROPS["C05"] = {
    "coq": "theories/Properties/C05.v",
    "sub": "c05",
    "bin": "tfh_hints",
    "n": {"quick": 1000, "thorough": 15000},
    "level": "proof",
    "search_factor": 3,
    "rule": "(filled in below)",
    "trusted_base": TB_ENGINE,
    "assumptions": [],
    "level_text": "Coq theorems over ALL row values and ALL targets (any nesting of Option/Vec/tuples; all 8 integer targets x both integer kinds x all 2^64 integers of either signedness), closed under the global context: an in-range integer decodes to exactly itself and an out-of-range one is a returned Err(range), never a wrapped/truncated number (decode_int_range/int_ok/int_spec, also at row level); outside the two F16 classes every Ok result denotes the row value (decode_exact: same integer/string/bool/float bits, None iff null, element-wise lists, f32 numerically equal to the f64); the full-strength statement is refuted with the witnesses Int64(2^53+1)->f64, Uint64(u64::MAX)->f64, Float64(1e300)->f32=inf; the classes are characterised exactly (the `as` result equals the source iff the integer has <= 53/24 significant bits, resp. iff some finite binary32 equals the binary64 value) from a proved round-to-nearest-even model valid for any precision; decoding panics iff it reaches a FieldValue::Enum (todo!(), new finding F19) and otherwise returns Ok/Err; Null into Option is None and into anything else an Err, tuple length mismatch is an Err, no kind coercion; rows: every present field holds the decoding of its row value, an absent key is accepted only for Option fields (None), extra keys are ignored without inspecting their value; edge parameters use the same function. The tie re-runs try_into_struct of the current /repo build (with the real serde) against the model on ~12k cases per run, including 18 real EdgeParameters maps from the frontend, and the oracle re-checks exactness of every result with i128/bit arithmetic.",
    "level_note": "(filled in below)",
}

PROPS["C09"] = {
    "coq": "theories/Properties/C09.v",
    "sub": "c09",
    "n": {"quick": 500, "thorough": 8000},
    "level": "proof",
    "rule": "generated worlds as for C01 but with the known-defect knobs raised (non-regex strings, ordering on lists, repeated tag uses inside folds, count filters everywhere incl. under @optional, huge/negative counts); each is run to completion under catch_unwind. Tie: the Exec model predicts ROWS/PANIC for the same world. Non-trivial as for C01.",
    "trusted_base": TB_ENGINE,
    "assumptions": ["adapter honours the contract", "arguments accepted by argument validation"],
    "level_text": "Every unwrap/expect/index/assert!/unreachable! of execution.rs, filtering.rs::apply_filter and the DataContext helpers is an explicit Panic outcome of the Exec.v model; theorems show panic-freedom of the fold-count limit computation and of the stack discipline lemmas proved so far (see Properties/C09.v); the model's panic prediction is compared with catch_unwind(interpret_ir) on every generated world, and any panic outside the recorded known classes is a violation with the world as replay.",
    "level_note": "Partial proof (the whole-interpreter no-panic theorem is a corollary of the staged C01 simulation). Known classes: K-regex-invalid (F4), K-list-ordering (F5).",
}

PROPS["C12"] = {
    "coq": "theories/Properties/C12.v",
    "sub": "c12",
    "bin": "tfh_c12",
    "n": {"quick": 300, "thorough": 2500},
    "level": "proof",
    "search_factor": 4,
    "rule": "each evaluation is one (compiled query, argument map) pair run through InterpretedQuery::from_query_and_arguments under catch_unwind, or one query's recorded variable types. Queries: n accepted queries with >= 1 variable from the engine generator over the world schema (plus a tenth without variables), and n queries of a multi-use family over an 18-property schema (Int/String/Float/Boolean, lists to depth 3 in every nullability pattern) in which 1-2 variables are each used by 2-5 filters (all 20 binary operators; vertex filters, fold-count post-filters, filters inside a fold and a nested fold), so that recorded types are genuine meets or the frontend refuses with IncompatibleVariableTypeRequirements. From each query's VALID argument map a malformed stream is derived with the seeded PRNG (9 resp. 5 variants): one argument dropped; an extra argument (names sorting before/between/after the variables, prefixes and extensions of variable names, empty and non-ASCII names); a value of another base type, a list for a scalar, a scalar for a list, one level too deep / too shallow, a wrong or null element after valid ones, Null; a FieldValue::Enum bare / after valid elements / after an invalid element / nested (F6); an arbitrary value; the empty map; only extras; combinations of 2-4 faults; plus 8 fixed witnesses. A pair is non-trivial when the query has variables or the map is non-empty; distinct by (variables, arguments). Direct oracle on every pair: missing / unused / ill-typed names recomputed from ir_query.variables with a first-principles validity function (cross-checked against the real Type::is_valid_value on enum-free values), and the implementation's verdict, error variants, names, order, type texts and offending values compared with it; on every accepted query: ir_query.variables equals the Type::intersect-fold (in both directions) of all use-site types found by walking the IR, the use-site types equal the harness' own reading of the inference rules, and a multi-use query is refused iff some variable's use-site types have no meet.",
    "trusted_base": TB_COMMON + [
        "BTreeMap<Arc<str>, _> is modelled as a key-sorted association list (iteration in byte-wise str order = String.compare; get/contains_key = first match); theorems about order use sorted_keys, the acceptance/refusal theorems hold for arbitrary association lists",
        "Type::is_valid_value / Type::intersect / Display for Type are the Ty.v transcriptions (tied by C17); types are read through (base_type(), __verif_mask())",
        "for frontend-refused multi-use queries the use-site list given to the model is computed by the harness' own reading of infer_variable_type (cross-checked against the IR on every accepted query)",
    ],
    "assumptions": ["use-site types are well formed (C17) for the variables_are_meets theorems; none for the validation theorems", "argument values contain no FieldValue::Enum for the refusal/no-panic theorems (complement of the known class K-enum-arg)"],
    "level_text": "Coq theorems, closed under the global context, over ALL variable maps and ALL argument maps (any names, values of any nesting): the map is accepted iff every variable has a value valid for its type and every supplied name is a variable (no side condition); a refusal is exactly [one ArgumentTypeError per ill-typed variable with the type's text and the offending value, in key order] ++ [MissingArguments(all missing names) iff non-empty] ++ [UnusedArguments(all unused names) iff non-empty], each name once and in key order on sorted maps, MultipleErrors iff more than one; on enum-free maps validation never panics and refuses iff not acceptable; validation panics exactly when some variable's type check does. The type the query implies: fill_in_query_variables never panics on well-formed use-site types, refuses iff some variable's use-site types have no meet, and otherwise records for every variable the Type::intersect-meet of all its use-site types — a subtype of each, the greatest such, and a value is valid for it iff it is valid for every use site (via C17 valid_meet); hence a compiled query accepts an argument map iff every use site of every variable gets a fitting value and nothing else is supplied. Known genuine defect F6 (a reached FieldValue::Enum hits unimplemented! in is_valid_value: neither accepted nor refused) is proved as a refutation witness and reported as KNOWN-FINDING. The tie re-runs the real validation on ~4.5k pairs and the real frontend's variable recording on ~450 queries per run.",
    "level_note": "Trusted: Coq kernel; the transcription Args.v over Ty.v (tied by the differential run only); BTreeMaps as key-sorted association lists; the harness, its generators and renderers. The order in which fill_in_query_variables visits use sites is transcribed (uses_of_comp) and tied, but only its result (the meets) is observable.",
}

PROPS["C19"] = {
    "coq": "theories/Properties/C19.v",
    "sub": "c19",
    "bin": "tfh_c19",
    "n": {"quick": 700, "thorough": 6000},
    "level": "proof",
    "search_factor": 2,
    "rule": "each evaluation is one schema document, parsed by the real async_graphql_parser::parse_schema, its ServiceDocument walked into the Gallina AST, Schema::new run under catch_unwind and rendered as OK / PANIC / ERR:<every error variant with all its identifying strings, in the implementation's order>. Fixed corpus every run: the harness world schema, /repo test_data/schemas/*.graphql, tests/valid_schemas/*.graphql (must be accepted), tests/schema_errors/*.graphql (must reproduce the repository's expected .ron error exactly), 27 minimal witnesses of the known classes and of the boundaries around them (30 vs 31 list levels, duplicate type before/after a second schema block, enum default behind an earlier mismatch, duplicate parameter names, cycle plus waiting type), 2 AST-only documents (empty ServiceDocument, schema block with query = None). Seeded stream of n documents: 30% random VALID schemas (1-6 vertex types + root under random names/orders, interface hierarchies with transitively closed implements in shuffled order, inherited edges narrowed to subtypes and in nullability, inherited parameters contravariantly widened, properties of every builtin scalar up to 30 list levels, edge parameters with type-correct defaults incl. u64/i64 limits, 1-4 entry points, custom scalars, directive definitions, everything in shuffled document order); 35% one violation out of 22 (one per error variant, several shapes each) applied to a valid schema; 20% combinations of 2-3 violations; 15% the F12 constructs (16 shapes incl. their interplay with the early-return errors). A case is non-trivial when the document has >= 2 vertex types and an implements relation or is not accepted; distinct by AST. Direct oracle on the implementation, independent of the model: no panic; Schema::parse(text) = Schema::new(parse_schema(text)); generated valid schemas are accepted; violated schemas are rejected with the error kinds of exactly the violated rules (required kinds present, nothing outside required + knock-on kinds; duplicate-name violations give exactly one error).",
    "trusted_base": TB_COMMON + [
        "async_graphql_parser 7.2.1 (text -> ServiceDocument) is NOT modelled: theorems quantify over ALL abstract documents (SchemaAst.v) and the tie feeds the model the AST the real parser produced; claimed partial w.r.t. raw text",
        "HashMap<Arc<str>,_> / HashMap<(Arc<str>,Arc<str>),_> are modelled as association lists in insertion order with first-match lookup (they are only used for lookups and for `.iter().sorted_by_key(name)`); BTreeMap/BTreeSet as key-sorted lists under byte-wise String.compare (= Rust str order); so the ORDER of reported errors is part of the tie and does not depend on hash order",
        "Type::from_type / is_valid_value / is_scalar_only_subtype / Display are the Ty.v transcriptions (tied by C17/C16); default values are the FieldValue produced by the real TryFrom<ConstValue> (conversion failure = BadDefault)",
        "constructs with documented unimplemented! (extend, enum, union, input object definitions) are outside the property and the AST; the harness skips such documents",
    ],
    "assumptions": ["the document is outside the ten known-defect classes (each a boolean predicate on the AST, SchemaSpec.v): K-no-schema-block, K-dup-schema-block, K-schema-without-query, K-builtin-scalar-redeclared, K-dup-scalar, K-dup-directive, K-undefined-query-type, K-interface-query-type, K-list-depth, K-enum-default"],
    "level_text": "Coq theorems, closed under the global context, over ALL schema documents (any number of definitions, any names, any nesting): outside the known classes Schema::new never panics (all 19 Panic sites of the transcription unreachable, fuel |types|+1 adequate for the get_field_origins work queue) and returns the empty error list EXACTLY when the document satisfies the declarative rule set valid_schema (unique type/field names; implemented types exist, are interfaces, transitively implemented; inherited fields present and only narrowed: is_subtype = inductive compatibility relation, equal parameter name sets, contravariant scalar parameter types with last-duplicate-wins semantics; field types builtin or defined; no reserved names; no edge into the root, root has only edges; properties without parameters; edges at most one list level; defaults fit structurally; a topological numbering of implements exists; every field has a single origin under an inductive origin relation). Also proved per check: each check function reports nothing iff its rule holds; cycle error iff no topological numbering; ambiguity errors iff two distinct origins. The full statement is refuted by one vm_compute witness per known class (genuine panics of the implementation, reproduced by the tie every run). The tie re-runs Schema::new of the current /repo build against the model on ~800 documents per run, comparing complete ordered error lists.",
    "level_note": "Proof over the AST, PARTIAL w.r.t. raw text (third-party parser not modelled). Known classes over-approximate the panicking documents (e.g. a duplicate type name before a second schema block returns the early error instead). Trusted: Coq kernel; the transcription SchemaNew.v (tied by the differential run only) over Ty.v; the harness AST walker and renderers.",
}


def _c27_runner(prop, cfg, tier, seed, t0):
    # imported lazily so that a defect in tools/c27_runner.py cannot affect other properties' checks
    from c27_runner import run
    return run(prop, cfg, tier, seed, t0)


PROPS["C27"] = {
    "coq": "theories/Properties/C27.v",
    "sub": "c27",
    "bin": "tfh_c27",
    "runner": _c27_runner,
    "n": {"quick": 40, "thorough": 400},
    "nrandom": {"quick": 300, "thorough": 4000},
    "level": "partial",
    "search": False,
    "rule": "conversion probes (two evaluations each: as a query ARGUMENT, observing the FieldValue that arrives in the engine through the engine's own type-mismatch message or the kind of ValueError raised; and as a PROPERTY VALUE returned by a Python adapter and output by the query, observing the Python object that comes back or the Rust panic): a fixed list of 123 objects (None, bools, ints at every boundary -2^63-1 / -2^63 / 2^63-1 / 2^63 / 2^64-1 / 2^64 / 2^64+1, round-half-even decision points at 2^70 and 2^100, 10^400, the float-overflow edge 2^1024-2^970 and its predecessor with both signs, floats incl. +-0.0, subnormal, f64::MAX, inf, -inf, nan, ASCII / UTF-8 / escaped / astral / lone-surrogate strings, empty / null-padded / heterogeneous / mixed-sign / nested (depth 3) lists, dict / tuple / bytes / set / complex / function / range objects, int / float / str / list subclasses, objects with __index__ / __float__) plus n seeded random objects (nested lists to depth 3 mostly of one element kind, ints around the 64-bit limits and beyond up to 1025 bits built around the int->float rounding decision points, arbitrary float bit patterns incl. NaN/inf); a probe is non-trivial unless it is None, a bool, an int below 2^31, a plain ASCII string or an unsupported object; distinct by channel + classified object. Engine agreement: n generated worlds (the C01 generator: random dataset over the 5-type schema, generated query with filters / tags / folds / recursion / optional / coercions / edge parameters, generated arguments) are run by the Rust engine over the harness' GraphAdapter and, rebuilt from JSON, by trustfall.execute_query over a Python Adapter mirroring it; the ordered row lists must be equal (values rendered canonically, integer kind erased since Python has one int type). Also 5 malformed calls (arguments not a dict, non-str key, adapter not an Adapter) must raise.",
    "trusted_base": TB_COMMON + [
        "CPython 3.11 and pyo3 0.29 are OUTSIDE the model. A Python object is represented by what pyo3's primitive extractions observe of it (pyobj: None / bool / unbounded int / float bits / UTF-8 str / list / other); the classification of real objects into pyobj is done by tools/c27_driver.py::classify (trusted)",
        "pyo3's primitive extraction rules are MODELLED in a few lines of PyConv.v and tied only by the probe run: is_none; bool only for exact bools; i64/u64 through __index__ with OverflowError outside the type's range (bool is an int, hence the cascade order matters); f64 accepts floats and, through PyFloat_AsDouble, every int (correctly rounded half-to-even, OverflowError when the result is not below 2^1024); String for str that encodes to UTF-8; cast::<PyList> for list instances",
        "the FieldValue arriving in the engine is read from the engine's error text `cannot be converted to that type: <Debug>` (parsed by the driver) and conversion errors are classified by message text (nonfinite / hetero / unsupported)",
        "the Python GraphAdapter in tools/c27_driver.py and the Rust GraphAdapter in harness/src/world.rs are two implementations of the same finite graph (same params_keep rule); the extension module is built by `cargo build --release --offline -p pytrustfall` from /repo's working tree into /verif/.cache/target_py and imported from a mkdtemp package directory (removed afterwards)",
    ],
    "assumptions": ["values sent from Rust to Python contain no FieldValue::Enum (into_pyobject is todo!() for it; nothing in pytrustfall creates one)", "floats held by the engine are finite (FieldValue's documented invariant; extract enforces it on the way in)"],
    "level_text": "PARTIAL. Coq theorems, closed under the global context, over ALL Python objects (unbounded ints, every float bit pattern, any list nesting) and ALL field values decide the conversion logic of pytrustfall/src/value.rs: extract is faithful (denotes) and Python->Rust->Python is the identity on every object without an int outside [-2^63, 2^64); ints are exact on the whole 64-bit range with the Int64/Uint64 split at 2^63; whatever arrives is a well-formed, enum-free FieldValue; unsupported objects, non-finite floats, ints of magnitude >= 2^1024, lists with a non-convertible element and lists whose non-null elements convert to different variants are rejected (the list branch is characterised completely, including that the homogeneity check is shallow); Rust->Python->Rust returns a value equal under the C08 equality exactly for values whose lists have a homogeneous Python image, and is rejected otherwise. The three unrestricted statements are refuted in Coq with concrete witnesses (classes K-py-bigint-float, K-py-mixed-int-list), confirmed on the real binding on every run. 'Same rows as the Rust engine' is NOT proved: it is observed on generated worlds through the real extension module (plus C01 for the engine itself).",
    "level_note": "Partial: CPython, pyo3 and the AdapterShim's iterator plumbing are outside any Coq model; the engine-agreement half is a differential run. Trusted: Coq kernel; the transcription PyConv.v incl. the modelled pyo3 primitives (tied by the probe run only); the driver's classification and renderers; the harness. Known classes: K-py-bigint-float, K-py-mixed-int-list.",
}

PROPS["C26"] = {
    "coq": "theories/Properties/C26.v",
    "bin": "tfh_c26",
    "sub": "c26",
    "n": {"quick": 300, "thorough": 3000},
    "extra": {"quick": ["--compiles", "4"], "thorough": ["--compiles", "40"]},
    "level": "proof",
    "search_factor": 3,
    "rule": "valid Trustfall schemas over the built-in scalars (every one accepted by trustfall_core Schema::parse first): a fixed corpus of 30 schemas (one witness per known class, F15's aB/AB, and adversarial schemas that must compile) plus n seeded random schemas with 1-5 vertex types (objects and interfaces with implementers, 0-3 properties and 0-3 edges per type with 0-2 parameters, 1-3 entry points), names drawn per mode: plain (no adversarial name), keywords (Rust strict/reserved/weak keywords and their case variants as type, property, edge, entry-point and parameter names), case (ab aB Ab AB a_b A_B a__b _ab ab_ a1 a_1 ... differing only in case/underscores/digits), mixed (all pools plus names that collide with identifiers of the stub's own scaffolding: contexts, parameters, resolve_info, resolve_neighbors_with, trustfall, Vertex, _ ...). Per schema three tie cases: the identifiers scanned out of the files generate_rust_stub wrote (enum variants, property/edge resolver fns, their references in adapter_impl.rs, edge modules with edge fns, their parameters and the as_* conversion each calls, entry-point fns with parameters; PANIC when the generator panics) vs the model's `generate`; the known-class membership computed by the harness vs the model's predicates; the identifier-level verdict. For every compiled schema a fourth case compares the model's verdict with rustc. Plus ~250 single names (all pools, both keyword lists, random strings over {a,b,A,B,Z,z,_,1,9,Q}) through the four name functions. A schema case is non-trivial when at least one of its names is outside the plain pools; distinct by rendered schema. Direct oracle on every schema: a stub must be produced (no panic) and the identifiers READ FROM THE FILES must satisfy the identifier-level necessary conditions (recomputed in Rust, independent of the model); compile oracle (`cargo test --no-run --offline` against /repo/trustfall, shared target dir .cache/target_c26): quick = derive probe + F15 witness + one plain + one keyword + one case/underscore schema outside every known class; thorough = probe + 40 compiled stubs (the whole corpus, the rest random with a quota per mode, mostly outside the known classes).",
    "trusted_base": TB_COMMON + [
        "rustc/cargo are the judges of 'compiles'; Coq decides only the identifier-level NECESSARY condition idents_ok (distinct definitions per namespace, called as_* conversions exist, no bare reserved word, parameters do not capture bindings of the scaffolding). That list of conditions was found by reading the templates and by compiling adversarial stubs; its completeness with respect to rustc is not provable and is only sampled by the compile oracle (the model's verdict must predict rustc on every compiled schema)",
        "syn's treatment of reserved words is transcribed as literal lists (syn-2 ident.rs accept_as_ident; in parameter position Self/crate/super/_/true/false and a leading `self` parse, everything else panics in pretty_print_item); tied by the differential run",
        "trustfall_derive's private to_lower_snake_case (names of the as_* methods) is transcribed; it is tied through a probe crate that derives TrustfallEnumVertex on ~80 adversarial variants and calls every predicted method (compiled on every run)",
        "the text scanner that reads identifiers back from the generated files (regexes over prettyplease output) and the schema generator/renderer in harness/src/bin/tfh_c26.rs",
        "identifiers are ASCII (GraphQL names); Rust's char::is_uppercase/to_lowercase are modelled on ASCII only",
    ],
    "assumptions": ["the schema is valid (accepted by Schema::parse) and uses only built-in scalar types; at the model level: type names non-empty and pairwise distinct, entry-point names distinct, parameter names distinct per field (wf_schema)", "stub crate: edition 2021, trustfall = path dependency on /repo/trustfall (as in trustfall_stubgen's own tests)"],
    "level_text": "PARTIAL. 'Compiles' is rustc's judgement and is tested, not proved: stubs of generated schemas are compiled on every run. Coq (closed under the global context, all names of any length) decides the identifier level: the full statement 'guards pass => variants / resolver fns / as_* conversions distinct and no bare keyword' is REFUTED with concrete witnesses for eight defect classes of the generator (F15 K-variant-collision aB/AB; K-conversion-name-mismatch: stubgen and trustfall_derive snake-case differently, e.g. UserID with an edge; K-derive-conversion-collision AB/a_b; K-entrypoint-collision: no guard covers entry points; K-reserved-word-unescaped: parameters are never escaped and 12 reserved words plus `_` are missing from escaped_rust_name; K-parameter-capture; K-import-clash; K-crate-shadow), plus K-guard-rejects-valid-schema (the guards panic on valid schemas: no stub). Proved: the classification is COMPLETE at the identifier level (outside the nine classes every valid schema gets a stub and every identifier condition holds); with no class excluded the guards make property/edge resolver fns, edge modules and per-module edge fns pairwise distinct and the doubly snake-cased references resolve; exact characterisations of the guards (pass iff the escaped snake-case names are pairwise distinct), of when the generator panics, of which names stay reserved after escaping, and of when the called as_* conversion exists (no two adjacent upper-case letters in the variant); to_lower_snake_case is idempotent and never emits upper case. The tie re-runs the real generator against the model on ~330 schemas x 3 observables per run and the model's verdict is compared with rustc on every compiled stub.",
    "level_note": "PARTIAL: rustc is outside Coq; idents_ok is a necessary condition assembled by inspection and experiment (sampled, not proved complete, against rustc). Trusted: Coq kernel; the transcription Names.v (tied by the differential run only) incl. syn's keyword list and trustfall_derive's snake case; the file scanner, generators and renderers of tfh_c26; cargo/rustc. Known classes: K-variant-collision (F15), K-conversion-name-mismatch, K-derive-conversion-collision, K-entrypoint-collision, K-reserved-word-unescaped, K-parameter-capture, K-import-clash, K-crate-shadow, K-guard-rejects-valid-schema.",
}

NOT_APPLICABLE = {}
HOOK_COMMITS = ["c2bf0a1 verif hooks: cfg(trustfall_verif)-guarded exports of filter operators, candidate ops and type predicates"]

# Properties whose check has been verified by the coordinator to pass on the unchanged tree; only these are
# claimed in MANIFEST.json (tools/gen_manifest.py).  Entries in PROPS that are not READY are work in progress.
READY = {"C01", "C06", "C07", "C08", "C09", "C12", "C17", "C18", "C19", "C26", "C27"}
