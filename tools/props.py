"""Per-property configuration for ./check."""

TB_COMMON = [
    "Coq 8.16.1 kernel (coqc); no native_compute; vm_compute only inside the correspondence check and in closed Example/refutation witnesses",
    "hand-written Gallina transcription of the Rust code (modelled, not verified); tied to /repo only by the differential correspondence run of this check",
    "the Rust harness (/verif/harness), its generators and printers, tools/*.py, and the Show.v / show.rs canonical renderers",
]

PROPS = {
    "C08": {
        "coq": "theories/Properties/C08.v",
        "sub": "c08",
        "n": {"quick": 40, "thorough": 160},
        "level": "proof",
        "rule": "all ordered pairs over a 57-element boundary set (every variant; i64/u64 limits and the 2^63 boundary; +-0.0, subnormal, 2^53+1, f64::MAX; empty/ASCII/UTF-8 strings; nested and mixed-int lists) plus n seeded random values; a pair is non-trivial when both sides are of the same variant or both integers (the cases where the comparison is not decided by the discriminant); distinct by rendered pair. The oracle additionally checks all eight laws on every triple on the implementation.",
        "trusted_base": TB_COMMON + [
            "IEEE-754: comparison of finite binary64 values equals integer comparison of the sign-magnitude key of their bit patterns (f64_key); checked densely against f64::partial_cmp by the tie",
            "Rust str ordering is byte-wise lexicographic (String.compare on bytes)",
        ],
        "assumptions": ["floats are finite (FieldValue's documented invariant)"],
        "level_text": "All eight order/equality laws are Coq theorems over ALL field values (any nesting, all 2^64 integers of either signedness, every finite float bit pattern), closed under the global context; the transcribed PartialEq/PartialOrd are proved panic-free and equal to the total functions on well-formed values. The tie re-runs == and partial_cmp of the current /repo build against the model on ~9k pairs per run, and the laws themselves are checked on ~900k implementation triples.",
        "level_note": "Trusted: Coq kernel; the transcription Values.v (tied by the differential run only); IEEE-754 finite comparison modelled as sign-magnitude key comparison; byte-wise str ordering; the harness and renderers.",
    },
}

NOT_APPLICABLE = {}
HOOK_COMMITS = []
