"""Per-property configuration for ./check."""

TB_COMMON = [
    "Coq 8.16.1 kernel (coqc); no native_compute; vm_compute only inside the correspondence check and in closed Example/refutation witnesses",
    "hand-written Gallina transcription of the Rust code (modelled, not verified); tied to /repo only by the differential correspondence run of this check",
    "the Rust harness (/verif/harness), its generators and printers, tools/*.py, and the Show.v / show.rs canonical renderers",
]

PROPS = {
    "C06": {
        "coq": "theories/Properties/C06.v",
        "sub": "c06",
        "n": {"quick": 44000, "thorough": 400000},
        "level": "proof",
        "search_factor": 1,
        "rule": "candidate universe = {Impossible, All, Single v (null + 12 boundary values), Multiple of 0-5 values (empty, singletons, all ordered pairs incl. duplicates over {null, I64 0, U64 0, U64 2^63, \"a\"}, all triples over {null, I64 1, U64 1}, seeded random), Range over every bound-kind combination 3x3 x null_included over 12 non-null boundary values (I64 -1/0/1/MAX, U64 0/1/i64::MAX/2^63, \"\"/\"a\"/\"b\", a float) = 1250 ranges}. Tie (model vs hooks): Range::new on all 27x27 bound combinations incl. null bounds (panic), Range::degenerate+contains on every range x 18 probes, Range::intersect on every start x start and end x end combination, normalize on the whole universe, exclude on (non-range x every probe) and (range x {null, bound values in both integer kinds, 2 seeded probes}), intersect on ALL ordered pairs of non-range candidates plus n seeded pairs involving a Range (half Range x non-Range in either order, half Range x Range). A case is non-trivial unless an intersect operand is Impossible/All, normalize is applied to Impossible/Single/All, or exclude to Impossible; distinct by rendered operation+operands. Direct oracle (implementation only, every run): ALL ~1.8M ordered pairs of the universe x 18 probe values for intersect, the whole universe for normalize, universe x 18 x 18 for exclude.",
        "trusted_base": TB_COMMON + [
            "Cand.v instantiates the generic candidate code with FieldValue's == / partial_cmp as transcribed in Values.v (tied by C08); comparisons between different non-integer variants order by discriminant",
            "debug_assert! sites of Range::intersect are modelled as panics (the harness profile enables debug-assertions); proved unreachable on well-formed ranges",
        ],
        "assumptions": ["range bounds are not null (asserted by Range::new / with_start / with_end; Range also derives Deserialize, which is outside this property)", "floats are finite (FieldValue's documented invariant)"],
        "level_text": "Exactness of intersect (mem (a ∩ b) x = mem a x && mem b x for every probe incl. null), of normalize, and the two inclusion statements for exclude_single_value are Coq theorems over ANY carrier whose partial_cmp is a total preorder comparator consistent with == and whose null test is == default(), for ALL candidates (any list length, any bounds) with non-null range bounds; discharged for FieldValue with the C08 order laws, and restated as closed theorems about the tied instance (f_intersect/f_normalize/f_exclude built from the transcribed fv_eq/fv_cmp) on well-formed values. The operations are proved panic-free (debug_assert!, unreachable!, expect) and to preserve well-formedness; Range::new panics exactly on a null bound. The tie re-runs the hooked functions of the current /repo build against the model on ~68k cases per run and the set-theoretic statements are checked directly on all ~1.8M candidate pairs of the universe x 18 probes.",
        "level_note": "Trusted: Coq kernel; the transcription Cand.v (tied by the differential run only) over Values.v; the harness and renderers. Range::with_start/with_end have no hook (same assert block as Range::new; modelled, not tied).",
    },
    "C07": {
        "coq": "theories/Properties/C07.v",
        "sub": "c07",
        "n": {"quick": 20, "thorough": 120},
        "level": "proof",
        "rule": "direct: all 11 operator functions reachable through op_direct on every ordered pair over the 57-element C08 boundary set plus 29 extra values (regex-pattern strings valid and invalid, lists of strings / mixed-sign ints / floats / nulls / nested, non-finite floats) plus n seeded random values; dispatch: all 20 operations x {static table, tagged table with Some} x active in {true,false} on every ordered pair of a 24-value set (+ n/4 random), plus unary path and tagged None on every value. A pair is non-trivial when it lies inside the documented domain of at least one operator other than `=` (orderable pair or null, string/null pair, list/null collection); distinct by rendered pair. The oracle recomputes every in-domain result from first principles (i128 comparison, byte-wise string ops, structural equality) and checks exact complement / table wiring / optional survival on the implementation.",
        "trusted_base": TB_COMMON + [
            "IEEE-754: native f64 comparison equals integer comparison of the sign-magnitude keys (f64_key), NaN compares false; checked densely by the tie",
            "Rust str ordering / contains / starts_with / ends_with are byte-wise (String.compare, prefix on bytes)",
            "the regex crate is abstracted as a function re_match : pattern -> haystack -> option bool (None = does not compile); regex theorems are relative to it; the tie instantiates it per case with a finite table computed by the real regex crate",
        ],
        "assumptions": ["floats are finite (FieldValue's documented invariant)", "regex behaviour is taken from the regex crate (abstract re_match)"],
        "level_text": "Coq theorems over ALL operands (unbounded): equals = value equality eqT and never panics on well-formed values; <,<=,>,>= equal numeric comparison on Z for all 2^128 integer pairs of either signedness, byte-lexicographic order on strings, key order on finite floats, false when either side is null; exact characterisation of the operand pairs on which the slow-path unreachable! arms fire (cmp_defined), unreachable on orderable scalar pairs; prefix/suffix/substring = existential definitions; one_of/contains = membership up to eqT; negation_exact for every negated operation in both dispatch tables and the unary path; table wiring. Known genuine defect F5 (ordering operators panic on list operands the frontend accepts) is proved as a refutation witness and reported as KNOWN-FINDING. The tie re-runs every operator of the current /repo build against the model on ~11k pairs x 11 functions and ~600 pairs x 80 table entries per run.",
        "level_note": "Trusted: Coq kernel; the transcription Ops.v/Values.v (tied by the differential run only); IEEE-754 finite comparison as key comparison; byte-wise str operations; the regex crate (abstracted); the harness and renderers.",
    },
    "C08": {
        "coq": "theories/Properties/C08.v",
        "sub": "c08",
        "n": {"quick": 40, "thorough": 160},
        "level": "proof",
        "rule": "all ordered pairs over a 57-element boundary set (every variant; i64/u64 limits and the 2^63 boundary; +-0.0, subnormal, 2^53+1, f64::MAX; empty/ASCII/UTF-8 strings; nested and mixed-int lists) plus n seeded random values; a pair is non-trivial when both sides are of the same variant or both integers (the cases where the comparison is not decided by the discriminant); distinct by rendered pair. The oracle additionally checks all eight laws on every triple on the implementation.",
        "trusted_base": TB_COMMON + [
            "IEEE-754: comparison of finite binary64 values equals integer comparison of the sign-magnitude key of their bit patterns (f64_key); checked densely against f64::partial_cmp by the tie",
            "Rust str ordering is byte-wise lexicographic (String.compare on bytes)",
        ],
        "assumptions": ["floats are finite (FieldValue's documented invariant)"],
        "level_text": "All eight order/equality laws are Coq theorems over ALL field values (any nesting, all 2^64 integers of either signedness, every finite float bit pattern), closed under the global context; the transcribed PartialEq/PartialOrd are proved panic-free and equal to the total functions on well-formed values. The tie re-runs == and partial_cmp of the current /repo build against the model on ~9k pairs per run, and the laws themselves are checked on ~900k implementation triples.",
        "level_note": "Trusted: Coq kernel; the transcription Values.v (tied by the differential run only); IEEE-754 finite comparison modelled as sign-magnitude key comparison; byte-wise str ordering; the harness and renderers.",
    },
    "C17": {
        "coq": "theories/Properties/C17.v",
        "sub": "c17",
        "n": {"quick": 40, "thorough": 400},
        "level": "proof",
        "rule": "exhaustive family every run: all 90 types over base names Int/String/Foo x list depth <= 3 x every nullability pattern (2+4+8+16 shapes): construction through new_named_type/new_list_type, all accessors, with_nullability, one more list level; all 8 100 ordered pairs for intersect + is_scalar_only_subtype + equal_ignoring_nullability; every type x an 85-value set (the C08 boundary values, nested lists to depth 4, Enum-containing lists under catch_unwind) for is_valid_value; plus the two extreme 30-level types and n seeded random types of up to 30 levels with same-shape partners and type-directed values (new_list_type at 30 levels panics in both). A pair is non-trivial when base name and list depth agree (the operations are not decided by the shape check); a validity case when it is not a plain `false` or both type and value are lists; distinct by rendered input. The oracle checks every law on the implementation on all pairs/triples of the family (729 000 triples) and on a 40-type deep sample.",
        "trusted_base": TB_COMMON + [
            "types are identified with (base name, u64 mask) as reported by the __verif_mask hook; Arc<str> interning of the four builtin names is not modelled (it does not affect equality)",
            "Rust str equality / u64 bit operations have their standard meaning (String.eqb on bytes; N.land/N.lor/N.shiftl/N.shiftr, with the single possibly-truncating shift written as trunc64)",
        ],
        "assumptions": ["types are well formed = built by new_named_type/new_list_type/parse (proved equivalent to the mask encoding <= 30 list levels)"],
        "level_text": "All lattice laws are Coq theorems over ALL well-formed types (every list depth <= 30, every nullability pattern, every base name) and ALL field values, closed under the global context: intersect is commutative, idempotent, associative, a lower bound, the greatest lower bound, and None exactly when base or list depth differ; is_scalar_only_subtype is a partial order; equal_ignoring_nullability is an equivalence implied by subtyping; validity is monotone (all values) and validity for a meet is validity for both (enum-free values); intersect never panics, new_list_type panics exactly at 30 levels, is_valid_value panics exactly when its scan reaches an Enum (defect F6, accounted under C12). The mask-level transcription (with fuel 33) is proved equal to structural recursion on an abstract type view. The tie re-runs the real functions against the model on ~17k cases per run, exhaustively on the 90-type family.",
        "level_note": "Trusted: Coq kernel; the transcription Ty.v (tied by the differential run only); the (name, mask) reading of Type through the __verif_mask hook; the harness and renderers.",
    },
}

NOT_APPLICABLE = {}
HOOK_COMMITS = []
