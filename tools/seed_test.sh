#!/bin/bash
# usage: seed_test.sh <seed-id> <prop> [<prop>...]  -- applies /verif/seeded/<seed-id>/patch.diff to /repo, runs the
# quick checks of the given properties, records the outcome in /verif/seeded/<seed-id>/detection.json, reverts /repo.
ID=$1; shift
cd /verif
[ -z "$(git -C /repo status --porcelain)" ] || { echo "/repo not clean"; exit 2; }
git -C /repo apply /verif/seeded/$ID/patch.diff || { echo "patch failed"; exit 2; }
RES="{"
for P in "$@"; do
  ./check $P > work/seedrun_${ID}_$P.log 2>&1; RC=$?
  V=$(grep -c '^VIOLATION' work/seedrun_${ID}_$P.log)
  NF=$(grep -c 'no-failing-input-found' work/seedrun_${ID}_$P.log)
  RES="$RES\"$P\": {\"exit\": $RC, \"violation_lines\": $V, \"no_failing_input_found\": $NF},"
  REPLAY=$(grep '^VIOLATION' work/seedrun_${ID}_$P.log | head -1 | sed 's/.*replay=\([^ ]*\).*/\1/')
  [ -n "$REPLAY" ] && [ -f "$REPLAY" ] && cp "$REPLAY" seeded/$ID/replay_$P.json
done
for k in 1 2 3 4 5 6; do rm -f /repo/.git/index.lock; git -C /repo checkout -- . && break; sleep 3; done; git -C /repo clean -fdq
RES="${RES%,}}"
echo "$RES" > seeded/$ID/detection.json
echo "$ID $RES"
