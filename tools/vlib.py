"""Shared machinery for /verif/check: Coq build + audit, harness build/run, model evaluation,
diffing, known findings, evidence and violation reporting."""
import concurrent.futures as cf
import hashlib
import json
import os
import re
import shutil
import subprocess
import sys
import time

VERIF = os.path.dirname(os.path.dirname(os.path.abspath(__file__)))
COQ = os.path.join(VERIF, "coq")
THEORIES = os.path.join(COQ, "theories")
HARNESS = os.path.join(VERIF, "harness")
CACHE = os.path.join(VERIF, ".cache")
TARGET = os.path.join(CACHE, "target")
WORK = os.path.join(VERIF, "work")
TFH = os.path.join(TARGET, "release", "tfh")
NPROC = 16

ALLOWED_AXIOMS = {
    # standard-library axioms named in DESIGN.md section 7 (none is declared by this development)
    "Classical_Prop.classic",
    "ClassicalDedekindReals.sig_not_dec",
    "ClassicalDedekindReals.sig_forall_dec",
    "FunctionalExtensionality.functional_extensionality_dep",
}

FORBIDDEN = re.compile(
    r"\b(Admitted|admit|Axiom|Axioms|Parameter|Parameters|Conjecture|Conjectures|Abort)\b|"
    r"Unset\s+Guard|bypass_check|type-in-type|impredicative-set|Admit\s+Obligations|"
    r"Unset\s+Universe\s+Checking|Unset\s+Positivity"
)


def env_offline():
    e = dict(os.environ)
    e["CARGO_NET_OFFLINE"] = "true"
    e["CARGO_TARGET_DIR"] = TARGET
    e.setdefault("RUSTFLAGS", "--cfg trustfall_verif")
    return e


def sh(cmd, cwd=None, timeout=None, env=None):
    t0 = time.time()
    try:
        p = subprocess.run(cmd, cwd=cwd, shell=isinstance(cmd, str), stdout=subprocess.PIPE,
                           stderr=subprocess.STDOUT, timeout=timeout, env=env)
        return p.returncode, p.stdout.decode("utf-8", "replace"), time.time() - t0
    except subprocess.TimeoutExpired as ex:
        out = (ex.stdout or b"").decode("utf-8", "replace")
        return 124, out + "\n[timeout]", time.time() - t0


# ------------------------------------------------------------------ Coq

def coq_makefile():
    """Generate coq/Makefile.gen from _CoqProject, skipping listed files that do not exist (so that a
    half-registered file cannot break every other property's build)."""
    cp = os.path.join(COQ, "_CoqProject")
    gen = os.path.join(COQ, "_CoqProject.gen")
    mk = os.path.join(COQ, "Makefile.gen")
    lines = []
    for line in open(cp).read().split("\n"):
        t = line.strip()
        if t.endswith(".v") and not t.startswith("-") and not os.path.exists(os.path.join(COQ, t)):
            continue
        lines.append(line)
    text = "\n".join(lines)
    if not os.path.exists(gen) or open(gen).read() != text or not os.path.exists(mk):
        with open(gen, "w") as f:
            f.write(text)
        rc, out, _ = sh(["coq_makefile", "-f", "_CoqProject.gen", "-o", "Makefile.gen"], cwd=COQ, timeout=120)
        if rc != 0:
            raise RuntimeError("coq_makefile failed: " + out)


def coq_build(targets=None, timeout=3000, keep_going=False):
    """Build (incrementally) the given .vo targets (paths relative to coq/), or everything."""
    coq_makefile()
    cmd = ["make", "-f", "Makefile.gen", "-j%d" % NPROC]
    if keep_going:
        cmd.append("-k")
    if targets:
        cmd += targets
    rc, out, dt = sh(cmd, cwd=COQ, timeout=timeout)
    return rc == 0, out, dt


def strip_comments(src):
    out = []
    depth = 0
    i = 0
    in_str = False
    while i < len(src):
        if depth == 0 and src[i] == '"':
            in_str = not in_str
            out.append(src[i]); i += 1; continue
        if not in_str and src.startswith("(*", i):
            depth += 1; i += 2; continue
        if not in_str and depth > 0 and src.startswith("*)", i):
            depth -= 1; i += 2; continue
        if depth == 0:
            out.append(src[i])
        i += 1
    return "".join(out)


def coq_deps(vfile):
    """Transitive TF.* dependencies of a .v file (by scanning Require lines)."""
    seen = set()
    todo = [vfile]
    while todo:
        f = todo.pop()
        if f in seen or not os.path.exists(f):
            continue
        seen.add(f)
        src = strip_comments(open(f).read())
        for m in re.finditer(r"From\s+TF\s+Require\s+(?:Import|Export)?\s*([^.]*)\.", src):
            for name in m.group(1).split():
                cand = os.path.join(THEORIES, name.replace(".", "/") + ".v")
                if not os.path.exists(cand):
                    cand = os.path.join(THEORIES, "Properties", name + ".v")
                todo.append(cand)
    return sorted(seen)


def coq_audit_sources(files):
    problems = []
    for f in files:
        src = strip_comments(open(f).read())
        # string literals cannot contain vernacular; drop them before the scan
        src_ns = re.sub(r'"(?:[^"]|"")*"', '""', src)
        for m in FORBIDDEN.finditer(src_ns):
            line = src_ns.count("\n", 0, m.start()) + 1
            problems.append("%s:%d: forbidden token %r" % (os.path.relpath(f, VERIF), line, m.group(0)))
        if re.search(r"^\s*(Variable|Variables|Hypothesis|Hypotheses|Context)\b", src_ns, re.M):
            # allowed only inside sections: check nesting
            depth = 0
            for ln, line in enumerate(src_ns.split("\n"), 1):
                if re.match(r"\s*Section\s+\w+\s*\.", line):
                    depth += 1
                elif re.match(r"\s*End\s+\w+\s*\.", line) and depth > 0:
                    depth -= 1
                elif re.match(r"\s*(Variable|Variables|Hypothesis|Hypotheses|Context)\b", line) and depth == 0:
                    problems.append("%s:%d: Variable/Hypothesis outside a section" % (os.path.relpath(f, VERIF), ln))
    return problems


def coq_check_property(prop_file_rel):
    """Build the property file's dependencies with make, then compile the property file itself
    afresh (so Print Assumptions output is captured on every run) and audit it.
    Returns dict(ok, problems, theorems, assumptions, log)."""
    res = {"ok": False, "problems": [], "theorems": [], "assumptions": {}, "log": "", "wall_s": 0.0}
    t0 = time.time()
    vfile = os.path.join(COQ, prop_file_rel)
    vo = prop_file_rel[:-2] + ".vo"
    ok, out, _ = coq_build([vo])
    res["log"] = out[-6000:]
    if not ok:
        res["problems"].append("coq build failed for %s" % vo)
        m = re.search(r'File "([^"]+)", line (\d+)', out)
        if m:
            res["problems"].append("first error at %s:%s" % (m.group(1), m.group(2)))
        res["wall_s"] = time.time() - t0
        return res
    adir = os.path.join(WORK, "audit")
    os.makedirs(adir, exist_ok=True)
    tmpvo = os.path.join(adir, os.path.basename(vo))
    rc, out2, _ = sh(["coqc", "-q", "-noglob", "-Q", "theories", "TF", "-o", tmpvo, prop_file_rel], cwd=COQ, timeout=1200)
    for f in os.listdir(adir):
        if f.startswith(os.path.basename(vo)[:-3]):
            try:
                os.remove(os.path.join(adir, f))
            except OSError:
                pass
    res["log"] += "\n" + out2[-6000:]
    if rc != 0:
        res["problems"].append("coqc failed on the property file")
        res["wall_s"] = time.time() - t0
        return res
    # parse Print Assumptions output
    src = strip_comments(open(vfile).read())
    thms = re.findall(r"^\s*(?:Theorem|Lemma|Example|Corollary)\s+(\w+)", src, re.M)
    res["theorems"] = thms
    printed = re.findall(r"Print\s+Assumptions\s+(\w+)\s*\.", src)
    missing = [t for t in thms if t not in printed]
    if missing:
        res["problems"].append("no Print Assumptions for: " + ", ".join(missing))
    blocks = re.split(r"(?=^Closed under the global context|^Axioms:)", out2, flags=re.M)
    blocks = [b for b in blocks if b.startswith("Closed under") or b.startswith("Axioms:")]
    if len(blocks) != len(printed):
        res["problems"].append("expected %d Print Assumptions outputs, saw %d" % (len(printed), len(blocks)))
    for name, b in zip(printed, blocks):
        if b.startswith("Closed under"):
            res["assumptions"][name] = []
        else:
            axs = re.findall(r"^([A-Za-z_][\w.']*)\s*(?::|$)", b[len("Axioms:"):], re.M)
            axs = [a for a in axs if a not in ("Axioms",)]
            res["assumptions"][name] = axs
            for a in axs:
                if a not in ALLOWED_AXIOMS:
                    res["problems"].append("theorem %s depends on non-allow-listed assumption %s" % (name, a))
    res["problems"] += coq_audit_sources(coq_deps(vfile))
    res["ok"] = not res["problems"]
    res["wall_s"] = time.time() - t0
    return res


# ------------------------------------------------------------------ harness

def harness_build(timeout=3000, bin="tfh"):
    """Build one harness binary (and, through path dependencies, /repo's current working tree)."""
    lock = os.path.join(HARNESS, "Cargo.lock")
    if not os.path.exists(lock):
        shutil.copy("/repo/Cargo.lock", lock)
    rc, out, dt = sh(["cargo", "build", "--release", "--offline", "--bin", bin], cwd=HARNESS, timeout=timeout, env=env_offline())
    return rc == 0, out, dt


def harness_run(sub, seed, n, outdir, extra=(), timeout=3000, bin="tfh"):
    if os.path.isdir(outdir):
        shutil.rmtree(outdir)
    os.makedirs(outdir)
    cmd = [os.path.join(TARGET, "release", bin), sub, "--seed", str(seed), "--n", str(n), "--out", outdir] + list(extra)
    rc, out, dt = sh(cmd, cwd=VERIF, timeout=timeout, env=env_offline())
    return rc, out, dt


_STR = re.compile(r'"((?:[^"]|"")*)"')


def parse_coq_string_list(out):
    """Parse the `= ["a"; "b"; ...]` answer of `Eval vm_compute in results.`"""
    m = re.search(r"^\s*= \[(.*)\]\s*$", out, re.M | re.S)
    if m is None:
        m = re.search(r"=\s*\[(.*)\]\s*:\s*list string", out, re.S)
    if m is None:
        if re.search(r"=\s*\[\s*\]", out):
            return []
        return None
    return [s.replace('""', '"') for s in _STR.findall(m.group(1))]


def _run_shard(path):
    d = os.path.dirname(path)
    rc, out, dt = sh("ulimit -s unlimited 2>/dev/null || ulimit -s 1000000; exec coqc -q -noglob -Q %s TF %s" % (THEORIES, os.path.basename(path)), cwd=d, timeout=3000)
    if rc != 0:
        return path, None, out[-3000:], dt
    return path, parse_coq_string_list(out), out[-500:], dt


def model_run(outdir):
    """Evaluate every cases_<k>.v; returns {shard: [strings]} and a list of errors."""
    shards = sorted(f for f in os.listdir(outdir) if re.match(r"cases_\d+\.v$", f))
    results, errors = {}, []
    with cf.ThreadPoolExecutor(max_workers=NPROC) as ex:
        for path, lst, log, dt in ex.map(_run_shard, [os.path.join(outdir, s) for s in shards]):
            k = int(re.search(r"cases_(\d+)\.v$", path).group(1))
            if lst is None:
                errors.append({"shard": k, "log": log})
            else:
                results[k] = lst
    for f in os.listdir(outdir):
        if f.endswith((".vo", ".vok", ".vos", ".glob")) or f.startswith(".cases"):
            try:
                os.remove(os.path.join(outdir, f))
            except OSError:
                pass
    return results, errors


def canon_rows_multiset(x):
    """ROWS:a|b|c -> rows sorted (the order of result rows is not part of the compared observable)"""
    if x.startswith("ROWS:"):
        return "ROWS:" + "|".join(sorted(x[5:].split("|")))
    return x


CANON = {"rows-multiset": canon_rows_multiset}


def tie(outdir, canon=None):
    """Run the model on the harness' cases and diff with the implementation's answers.
    Cases of kind "tie" compare the MODEL of the code with the code (a mismatch breaks the
    correspondence); cases of kind "oracle" compare the property's SPEC with the code (a mismatch is
    a failure of the property on that input)."""
    impl = [json.loads(l) for l in open(os.path.join(outdir, "impl.jsonl"))]
    summary = json.load(open(os.path.join(outdir, "summary.json")))
    results, errors = model_run(outdir)
    cf_ = CANON.get(canon, lambda x: x)
    disagreements = []
    spec_failures = []
    order_only = 0
    nontrivial_keys = set()
    n_tie = n_oracle = 0
    info = {}
    for c in impl:
        lst = results.get(c["shard"])
        if lst is None:
            continue
        if c["idx"] >= len(lst):
            errors.append({"shard": c["shard"], "log": "model answer list too short"})
            continue
        m = lst[c["idx"]]
        if c.get("nontrivial"):
            nontrivial_keys.add(c.get("key") or json.dumps(c["input"], sort_keys=True))
        kind = c.get("kind", "tie")
        if kind == "info":
            info[m] = info.get(m, 0) + 1
            continue
        if kind == "oracle":
            n_oracle += 1
        else:
            n_tie += 1
        if m != c["impl"]:
            if cf_(m) == cf_(c["impl"]):
                order_only += 1
                continue
            if kind == "oracle":
                spec_failures.append({"what": "implementation differs from the specification", "input": c["input"],
                                      "detail": {"spec": m, "impl": c["impl"]}, "class": c.get("class")})
            else:
                disagreements.append({"input": c["input"], "model": m, "impl": c["impl"]})
    summary["oracle_failures"] = summary.get("oracle_failures", []) + spec_failures
    return {
        "cases": len(impl),
        "tie_cases": n_tie,
        "oracle_cases": n_oracle,
        "model_info": info,
        "order_only_differences": order_only,
        "distinct_nontrivial": len(nontrivial_keys),
        "disagreements": disagreements,
        "model_errors": errors,
        "summary": summary,
        "samples": [{"input": c["input"], "impl": c["impl"]} for c in impl[:: max(1, len(impl) // 5)][:5]],
    }


# ------------------------------------------------------------------ findings / reporting

def load_known():
    p = os.path.join(VERIF, "known_findings.json")
    if not os.path.exists(p):
        return []
    return json.load(open(p)).get("findings", [])


def write_replay(prop, payload):
    d = os.path.join(VERIF, "replays", prop)
    os.makedirs(d, exist_ok=True)
    blob = json.dumps(payload, indent=1, sort_keys=True)
    h = hashlib.sha256(blob.encode()).hexdigest()[:12]
    p = os.path.join(d, h + ".json")
    with open(p, "w") as f:
        f.write(blob)
    return p


def write_evidence(prop, tier, seed, level, coverage, assumptions, wall_s, violations):
    os.makedirs(os.path.join(VERIF, "evidence"), exist_ok=True)
    ev = {
        "property_id": prop,
        "tier": tier,
        "seed": int(seed),
        "level": level,
        "coverage": coverage,
        "assumptions": assumptions,
        "wall_s": round(wall_s, 2),
        "violations": violations,
    }
    with open(os.path.join(VERIF, "evidence", prop + ".json"), "w") as f:
        json.dump(ev, f, indent=1, sort_keys=True)
    return ev
